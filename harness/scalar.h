// Selects the scalar type under test from the command line:
//   -DVT_Q (archetype exact rational), -DVT_F, -DVT_D, -DVT_LD
#ifndef VERIF_SCALAR_H
#define VERIF_SCALAR_H
#include "vq.h"
#if defined(VT_Q)
using VT = vq::Q;
#elif defined(VT_F)
using VT = float;
#elif defined(VT_LD)
using VT = long double;
#elif defined(VT_D)
using VT = double;
#else
#error "define one of VT_Q VT_F VT_D VT_LD"
#endif
#endif
