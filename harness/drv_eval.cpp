// C02: evaluation returns the value of the stored piecewise polynomial.
#include "lib.h"
#include "scalar.h"

#ifndef MAXO
#define MAXO 6
#endif

using namespace vf;
using bspline::Spline;
using bspline::exceptions::BSplineException;
using bspline::support::Grid;
using bspline::support::Support;

namespace {

template <typename T, size_t o>
void evalCase(Ctx &c, Rng &g) {
  const bool dyadic = !ST<T>::exact;
  // one case in sixteen lives on a large grid (65..120 points)
  const bool large = c.caseId % 16 == 15;
  const std::vector<R> pts =
      large ? genGrid(g, dyadic, 65, 120) : genGrid(g, dyadic, 2, 12);
  c.count(large ? "grid:large" : "grid:small");
  const size_t n = pts.size();
  const Grid<T> grid = mkGrid<T>(pts);
  // window strata
  const int ws = (int)((c.caseId / (MAXO + 1)) % 8);
  Win w;
  const char *wname;
  switch (ws) {
    case 0:
      w = Win{0, n};
      wname = "whole-grid";
      break;
    case 1: {
      const size_t s = g.below(n - 1);
      w = Win{s, s + 2};
      wname = "one-interval";
      break;
    }
    case 2:
      w = Win{n - 2, n};
      wname = "last-interval";
      break;
    case 3:
      w = Win{0, 0};
      wname = "empty";
      break;
    case 4: {
      const size_t p = g.below(n);
      w = Win{p, p + 1};
      wname = "point-like";
      break;
    }
    case 5:
      w = n >= 3 ? Win{1, n} : Win{0, n};
      wname = "suffix-window";
      break;
    default:
      w = genWin(g, n);
      wname = "sub-window";
  }
  c.count(std::string("window:") + wname);
  c.count("order:" + std::to_string(o));
  const CoefM cm = genCoefM(g, dyadic, w.nint(), o);
  const Spline<T, o> s = mkSpline<T, o>(grid, w.start, w.end, cm);
  const Den den = denote(s);
  const std::string sdesc =
      "grid " + gridStr(pts) + " spline " + splineStr(s);

  // ---- front / back
  if (w.empty()) {
    bool t1 = false, t2 = false;
    try {
      (void)s.front();
    } catch (const BSplineException &) {
      t1 = true;
    }
    try {
      (void)s.back();
    } catch (const BSplineException &) {
      t2 = true;
    }
    if (!t1 || !t2)
      c.violation("C02", "front-back/empty-does-not-throw", sdesc);
    c.count("frontback:empty-throws");
  } else if (w.nint() > 0) {
    try {
      if (!sameBits(s.front(), grid[w.start]) ||
          !sameBits(s.back(), grid[w.end - 1]))
        c.violation("C02", "front-back/wrong-end-point",
                    sdesc + " front " + model::rstr(toR<T>(s.front())) +
                        " back " + model::rstr(toR<T>(s.back())));
      c.count("frontback:ends-checked");
    } catch (const BSplineException &e) {
      c.violation("C02", "front-back/throws-for-nonempty", sdesc + e.what());
    }
  } else {
    // point-like: returning the point or refusing are both accepted
    try {
      if (!sameBits(s.front(), grid[w.start]) ||
          !sameBits(s.back(), grid[w.start]))
        c.violation("C02", "front-back/wrong-point", sdesc);
    } catch (const BSplineException &) {
    }
    c.count("frontback:point-like");
  }

  // ---- abscissae
  struct X {
    T x;
    const char *kind;
  };
  std::vector<X> xs;
  for (size_t i = 0; i < n; i++) xs.push_back({grid[i], "grid-point"});
  for (size_t i = 0; i + 1 < n; i++)
    xs.push_back({mk<T>((pts[i] + pts[i + 1]) / 2), "midpoint"});
  const R span = pts.back() - pts.front();
  for (int r = 0; r < 8; r++) {
    // random point inside the grid range (dyadic: on a 1/1024 lattice)
    const R t = R(g.range(0, 1024)) / 1024;
    R x = pts.front() + span * t;
    if (dyadic) {
      // snap to the 1/1024 lattice so that it is representable in float
      const vq::Z num = boost::multiprecision::numerator(x * 1024) /
                        boost::multiprecision::denominator(x * 1024);
      x = R(num) / 1024;
    }
    xs.push_back({mk<T>(x), "interior-random"});
  }
  if (!w.empty()) {
    const T fr = grid[w.start], bk = grid[w.end - 1];
    if constexpr (ST<T>::exact) {
      const R tiny = R(1) / R(vq::Z(1) << 40);
      xs.push_back({mk<T>(toR<T>(fr) - tiny), "just-outside-left"});
      xs.push_back({mk<T>(toR<T>(bk) + tiny), "just-outside-right"});
      xs.push_back({mk<T>(toR<T>(fr) + tiny), "just-inside-left"});
      xs.push_back({mk<T>(toR<T>(bk) - tiny), "just-inside-right"});
    } else {
      xs.push_back({std::nextafter(fr, (T)-INFINITY), "just-outside-left"});
      xs.push_back({std::nextafter(bk, (T)INFINITY), "just-outside-right"});
      xs.push_back({std::nextafter(fr, (T)INFINITY), "just-inside-left"});
      xs.push_back({std::nextafter(bk, (T)-INFINITY), "just-inside-right"});
    }
  }
  // the immediate neighbours of every grid point: an abscissa just right of
  // an interior grid point belongs to the right-hand interval only
  for (size_t i = 0; i < n && n <= 16; i++) {
    if constexpr (ST<T>::exact) {
      const R tiny = R(1) / R(vq::Z(1) << 100);
      xs.push_back({mk<T>(pts[i] - tiny), "grid-point-neighbour"});
      xs.push_back({mk<T>(pts[i] + tiny), "grid-point-neighbour"});
    } else {
      xs.push_back({std::nextafter(grid[i], (T)-INFINITY), "grid-point-neighbour"});
      xs.push_back({std::nextafter(grid[i], (T)INFINITY), "grid-point-neighbour"});
    }
  }
  xs.push_back({mk<T>(pts.front() - 1000), "far-outside"});
  xs.push_back({mk<T>(pts.back() + 1000), "far-outside"});
  xs.push_back({mk<T>(R(0)), "zero"});
  if constexpr (!ST<T>::exact) xs.push_back({(T)-0.0, "minus-zero"});

  // C14: evaluation is a read - the same abscissae in two different orders
  // (as listed, then reversed) must give bit-identical values.
  {
    std::vector<T> first, second(xs.size());
    bool threw = false;
    try {
      for (const auto &xx : xs) first.push_back(s(xx.x));
      for (size_t i = xs.size(); i-- > 0;) second[i] = s(xs[i].x);
    } catch (const std::exception &) {
      threw = true;  // reported below under C02
    }
    if (!threw) {
      for (size_t i = 0; i < xs.size(); i++)
        if (!sameBits(first[i], second[i])) {
          c.violation("C14", "evaluation-depends-on-evaluation-order",
                      sdesc + " x=" + model::rstr(toR<T>(xs[i].x)) + " (" +
                          xs[i].kind + ") gave " + model::rstr(toR<T>(first[i])) +
                          " and then " + model::rstr(toR<T>(second[i])));
          break;
        }
      c.count("c14:evaluations-repeated", xs.size());
    }
  }
  bool nontrivial = false;
  for (const auto &xx : xs) {
    const R xr = toR<T>(xx.x);
    T val;
    try {
      val = s(xx.x);
    } catch (const std::exception &e) {
      c.violation("C02", std::string("evaluation-throws/") + xx.kind,
                  sdesc + " x=" + model::rstr(xr) + " threw " + e.what());
      continue;
    }
    c.count(std::string("x:") + xx.kind);
    const bool inside = w.nint() > 0 && xr >= pts[w.start] &&
                        xr <= pts[w.end - 1];
    if (!inside) {
      if (!(toR<T>(val) == 0) || !ST<T>::finite(val))
        c.violation("C02", std::string("nonzero-outside-support/") + xx.kind,
                    sdesc + " x=" + model::rstr(xr) + " value " +
                        model::rstr(toR<T>(val)));
      c.count("outside-checked");
      continue;
    }
    // candidate intervals of the window containing x (closed)
    bool ok = false;
    double best = INFINITY;
    std::string why;
    for (size_t k = w.start; k + 1 < w.end; k++) {
      if (!(xr >= pts[k] && xr <= pts[k + 1])) continue;
      const R exact = model::peval(den.pc[k], xr);
      // scale: sum |c_j| |x-xm|^j in the midpoint representation
      const R xm = (pts[k] + pts[k + 1]) / 2;
      const Poly mc = pabs(midCoeffs(s, k - w.start));
      const R S = hsum(mc, rabs(xr - xm));
      Verdict v = agreeScalar(val, exact, S);
      if (v.ok) {
        ok = true;
        if (v.ratio < best) best = v.ratio;
      } else
        why += "[interval " + std::to_string(k) + ": " + v.why + "] ";
    }
    if (!ok)
      c.violation("C02", std::string("wrong-value/") + xx.kind,
                  sdesc + " x=" + model::rstr(xr) + " " + why);
    else {
      if constexpr (!ST<T>::exact) c.maxval("ratio:evaluate", best);
      c.count("inside-checked");
      if (!model::dzerop(den)) nontrivial = true;
    }
  }
  if (nontrivial) {
    Hasher h;
    h.u(o);
    h.u(w.start * 1000 + w.end);
    for (const auto &p : pts) h.r(p);
    for (const auto &row : cm)
      for (const auto &x : row) h.r(x);
    c.nontrivial(h.h);
  }
  c.sample(sdesc + " evaluated at " + std::to_string(xs.size()) +
           " abscissae (every grid point, midpoints, ends +- 1ulp, far outside)");
}

template <typename T>
void runCase(Ctx &c) {
  Rng g = c.rng();
  dispatchOrder<MAXO>(c.caseId % (MAXO + 1),
                      [&](auto O) { evalCase<T, O.value>(c, g); });
}

}  // namespace

int main(int argc, char **argv) {
  return driverMain(argc, argv, "eval", ST<VT>::name(), runCase<VT>);
}
