// C12: interpolation reproduces the data with the promised smoothness and
// boundary conditions. Exact: generic interpolate<Q, order, Solver> with a
// harness-side exact Gaussian elimination. Bundled solver: interpolateUsingEigen
// for floating types, judged by the normwise backward error of the system
// re-assembled by the harness in exact arithmetic from the statement.
#ifndef VT_Q
#define BSPLINE_INTERPOLATION_USE_EIGEN
#endif
#include <bspline/interpolation/interpolation.h>

#include "lib.h"
#include "scalar.h"

#ifndef MAXORD
#define MAXORD 5
#endif

using namespace vf;
using bspline::Spline;
using bspline::exceptions::BSplineException;
using bspline::interpolation::Boundary;
using bspline::interpolation::Node;
using bspline::support::Grid;
using bspline::support::Support;

namespace {

bool g_singular = false;

// Exact dense solver over the scalar type itself, using only the documented
// operations (+ - * / and comparisons).
template <typename T>
class GaussSolver final : public bspline::interpolation::internal::ISolver<T> {
  size_t n;
  std::vector<T> m, rhs, sol;

 public:
  GaussSolver(size_t problemsize)
      : n(problemsize), m(problemsize * problemsize, static_cast<T>(0)),
        rhs(problemsize, static_cast<T>(0)), sol(problemsize, static_cast<T>(0)) {}
  T &M(size_t i, size_t j) override { return m.at(i * n + j); }
  T &b(size_t i) override { return rhs.at(i); }
  T &x(size_t i) override { return sol.at(i); }
  void solve() override {
    const T zero = static_cast<T>(0);
    std::vector<T> a = m, r = rhs;
    g_singular = false;
    for (size_t col = 0; col < n; col++) {
      size_t piv = col;
      while (piv < n && a[piv * n + col] == zero) piv++;
      if (piv == n) {
        g_singular = true;
        return;
      }
      if (piv != col) {
        for (size_t j = 0; j < n; j++) std::swap(a[piv * n + j], a[col * n + j]);
        std::swap(r[piv], r[col]);
      }
      for (size_t i = col + 1; i < n; i++) {
        if (a[i * n + col] == zero) continue;
        const T f = a[i * n + col] / a[col * n + col];
        for (size_t j = col; j < n; j++) a[i * n + j] -= f * a[col * n + j];
        r[i] -= f * r[col];
      }
    }
    for (size_t i = n; i-- > 0;) {
      T s = r[i];
      for (size_t j = i + 1; j < n; j++) s -= a[i * n + j] * sol[j];
      sol[i] = s / a[i * n + i];
    }
  }
};

struct BC {
  bool last;
  size_t deriv;
  R value;
};

R fallingFactorial(size_t j, size_t k) {  // j!/(j-k)!
  R r(1);
  for (size_t i = 0; i < k; i++) r *= R((long)(j - i));
  return r;
}

// System of the statement in midpoint coordinates: unknown (i,j) = coefficient
// j of interval i. Row order is irrelevant for the checks below.
struct System {
  size_t n = 0;
  std::vector<std::vector<R>> M;
  std::vector<R> b;
  void row(std::vector<R> r, R rhs) {
    M.push_back(std::move(r));
    b.push_back(std::move(rhs));
  }
};
System assemble(const std::vector<R> &x, const std::vector<R> &y, size_t order,
                const std::vector<BC> &bcs) {
  System s;
  const size_t ni = x.size() - 1, nc = order + 1;
  s.n = ni * nc;
  auto powr = [](const R &h, size_t e) {
    R r(1);
    for (size_t i = 0; i < e; i++) r *= h;
    return r;
  };
  for (size_t i = 0; i < ni; i++) {
    const R h = (x[i + 1] - x[i]) / 2;
    std::vector<R> l(s.n, R(0)), r(s.n, R(0));
    for (size_t j = 0; j < nc; j++) {
      l[i * nc + j] = powr(-h, j);
      r[i * nc + j] = powr(h, j);
    }
    s.row(l, y[i]);
    s.row(r, y[i + 1]);
  }
  for (size_t i = 0; i + 1 < ni; i++) {
    const R h1 = (x[i + 1] - x[i]) / 2, h2 = (x[i + 2] - x[i + 1]) / 2;
    for (size_t k = 1; k < order; k++) {
      std::vector<R> r(s.n, R(0));
      for (size_t j = k; j < nc; j++) {
        r[i * nc + j] = fallingFactorial(j, k) * powr(h1, j - k);
        r[(i + 1) * nc + j] = -fallingFactorial(j, k) * powr(-h2, j - k);
      }
      s.row(r, R(0));
    }
  }
  for (const auto &bc : bcs) {
    const size_t i = bc.last ? ni - 1 : 0;
    const R h = (x[i + 1] - x[i]) / 2;
    const R u = bc.last ? h : R(-h);
    std::vector<R> r(s.n, R(0));
    for (size_t j = bc.deriv; j < nc; j++)
      r[i * nc + j] = fallingFactorial(j, bc.deriv) * powr(u, j - bc.deriv);
    s.row(r, bc.value);
  }
  return s;
}
// rank by exact elimination
bool regular(const System &sys) {
  if (sys.M.size() != sys.n) return false;
  std::vector<std::vector<R>> a = sys.M;
  const size_t n = sys.n;
  for (size_t col = 0; col < n; col++) {
    size_t piv = col;
    while (piv < n && a[piv][col] == 0) piv++;
    if (piv == n) return false;
    std::swap(a[piv], a[col]);
    for (size_t i = col + 1; i < n; i++) {
      if (a[i][col] == 0) continue;
      const R f = a[i][col] / a[col][col];
      for (size_t j = col; j < n; j++) a[i][j] -= f * a[col][j];
    }
  }
  return true;
}

template <typename T, size_t order>
void interpCase(Ctx &c, Rng &g) {
  const bool dyadic = !ST<T>::exact;
  // abscissae: a window of a (possibly larger) grid
  // now and then many nodes (exact: only for low orders, the harness solver
  // is cubic in rationals; floating: up to 64 nodes)
  size_t nx = (size_t)g.range(2, dyadic ? 10 : 9);
  if (c.caseId % 32 == 31) {
    if (dyadic)
      nx = (size_t)g.range(24, 64);
    else if (order <= 3)
      nx = (size_t)g.range(12, 20);
    c.count("abscissae:many");
  }
  const size_t extraL = g.chance(1, 2) ? g.below(3) : 0;
  const size_t extraR = g.chance(1, 2) ? g.below(3) : 0;
  std::vector<R> pts = genGrid(g, dyadic, nx + extraL + extraR, nx + extraL + extraR);
  if (pts.size() < nx + extraL + extraR) return;  // lattice too small
  const Grid<T> grid = mkGrid<T>(pts);
  const Support<T> sup(grid, extraL, extraL + nx);
  std::vector<R> xs(pts.begin() + (long)extraL, pts.begin() + (long)(extraL + nx));
  // data scale: an exact power of two applied to all ordinates and boundary
  // values (the conditions are homogeneous in the data); all ordinates zero
  // now and then
  static const int scales[] = {0, 0, 0, 0, -60, -110, 40, -30};
  const int se = scales[(c.caseId / 5) % 8];
  const R scale = se >= 0 ? R(vq::Z(1) << (unsigned)se)
                          : R(R(1) / R(vq::Z(1) << (unsigned)(-se)));
  const bool zeroData = (c.caseId / 40) % 16 == 7;
  std::vector<R> ys;
  std::vector<T> yT;
  for (size_t i = 0; i < nx; i++) {
    ys.push_back(zeroData ? R(0) : R(genCoef(g, dyadic, (int)g.below(3)) * scale));
    yT.push_back(mk<T>(ys.back()));
  }
  c.count(se == 0 ? "data-scale:1" : (se < 0 ? "data-scale:tiny" : "data-scale:huge"));
  if (zeroData) c.count("ordinates:all-zero");
  // boundary conditions: default or a random admissible set
  std::vector<BC> bcs;
  std::array<Boundary<T>, order - 1> bs;
  const bool useDefault = g.chance(1, 3);
  if (useDefault) {
    for (size_t i = 0; i + 1 < order; i++)
      bcs.push_back(BC{i % 2 == 1, i / 2 + 1, R(0)});
  } else {
    std::vector<std::pair<bool, size_t>> all;
    for (int l = 0; l < 2; l++)
      for (size_t d = 1; d <= order; d++) all.push_back({l == 1, d});
    for (size_t i = 0; i + 1 < order; i++) {
      const size_t k = g.below(all.size());
      const R v = g.chance(1, 3) ? R(0) : R(genCoef(g, dyadic, 4) * scale);
      bcs.push_back(BC{all[k].first, all[k].second, v});
      all.erase(all.begin() + (long)k);
    }
    for (size_t i = 0; i + 1 < order; i++)
      bs[i] = Boundary<T>{bcs[i].last ? Node::LAST : Node::FIRST, bcs[i].deriv,
                          mk<T>(bcs[i].value)};
  }
  std::string desc = "order " + std::to_string(order) + " abscissae " +
                     gridStr(xs) + " (window (" + std::to_string(extraL) + "," +
                     std::to_string(extraL + nx) + ") of " +
                     std::to_string(pts.size()) + " points) ordinates " +
                     gridStr(ys) + " boundaries " +
                     (useDefault ? "default" : "");
  if (!useDefault)
    for (const auto &b : bcs)
      desc += std::string("{") + (b.last ? "LAST" : "FIRST") + ",d" +
              std::to_string(b.deriv) + "," + model::rstr(b.value) + "}";
  const System sys = assemble(xs, ys, order, bcs);
  // exact scalar: unique solvability by exact elimination; floating types:
  // the condition-number gate below implies it
  if constexpr (ST<T>::exact) {
    if (!regular(sys)) {
      c.count("singular-skipped");
      return;
    }
  } else if (sys.M.size() != sys.n) {
    c.count("singular-skipped");
    return;
  }
#ifndef VT_Q
  // The bundled solver (rank-revealing QR) truncates pivots below
  // eps*n*maxpivot, i.e. it does not solve numerically rank-deficient systems.
  // The floating-point oracle is therefore applied to problems that are
  // uniquely solvable *in that arithmetic*: cond_2(M) * n * eps * 2^10 <= 1.
  {
    Eigen::MatrixXd Md(sys.n, sys.n);
    for (size_t i = 0; i < sys.n; i++)
      for (size_t j = 0; j < sys.n; j++) Md((long)i, (long)j) = todouble(sys.M[i][j]);
    Eigen::JacobiSVD<Eigen::MatrixXd> svd(Md);
    const double smax = svd.singularValues()(0);
    const double smin = svd.singularValues()((long)sys.n - 1);
    const double cond = smin > 0 ? smax / smin : INFINITY;
    if (!(cond * (double)sys.n * ST<T>::eps() * 1024.0 <= 1.0)) {
      c.count(std::isfinite(cond) && cond < 1e300 ? "ill-conditioned-skipped"
                                                  : "singular-skipped");
      return;
    }
    c.maxval("condition-number", cond);
  }
#endif
  c.count("problems");
  c.count("order:" + std::to_string(order));
  c.count(useDefault ? "boundaries:default" : "boundaries:custom");
  c.count(extraL + extraR ? "abscissae:window-of-larger-grid" : "abscissae:whole-grid");
  if (nx == 2) c.count("abscissae:two-points");
  for (const auto &b : bcs) {
    if (b.last) c.count("boundary:LAST");
    if (b.deriv >= 2) c.count("boundary:derivative>=2");
    if (b.value != 0) c.count("boundary:nonzero-value");
  }
  try {
    std::optional<Spline<T, order>> res;
    if constexpr (ST<T>::exact) {
      res.emplace(useDefault
                      ? bspline::interpolation::interpolate<T, order, GaussSolver<T>>(sup, yT)
                      : bspline::interpolation::interpolate<T, order, GaussSolver<T>>(sup, yT, bs));
      if (g_singular) {
        c.violation("C12", "solvable-problem-assembled-singular/order" +
                               std::to_string(order), desc);
        return;
      }
    } else {
#ifndef VT_Q
      res.emplace(useDefault
                      ? bspline::interpolation::interpolateUsingEigen<T, order>(sup, yT)
                      : bspline::interpolation::interpolateUsingEigen<T, order>(sup, yT, bs));
#endif
    }
    const Spline<T, order> &s = *res;
    if (s.getSupport().getStartIndex() != extraL ||
        s.getSupport().getEndIndex() != extraL + nx ||
        !(s.getSupport() == sup)) {
      c.violation("C12", "result-window", desc + " -> " + splineStr(s));
      return;
    }
    const std::string tag = "order" + std::to_string(order);
    if constexpr (ST<T>::exact) {
      const Den d = denote(s);
      // values from both sides, derivative continuity, boundary rows
      for (size_t i = 0; i < nx; i++) {
        const size_t k = extraL + i;  // grid index of the node
        if (i > 0 && model::peval(d.pc[k - 1], xs[i]) != ys[i])
          c.violation("C12", "node-value-from-left/" + tag, desc + " node " + std::to_string(i));
        if (i + 1 < nx && model::peval(d.pc[k], xs[i]) != ys[i])
          c.violation("C12", "node-value-from-right/" + tag, desc + " node " + std::to_string(i));
        if (i > 0 && i + 1 < nx)
          for (size_t dd = 1; dd < order; dd++)
            if (model::peval(model::pderiv(d.pc[k - 1], dd), xs[i]) !=
                model::peval(model::pderiv(d.pc[k], dd), xs[i]))
              c.violation("C12", "derivative-continuity/" + tag,
                          desc + " node " + std::to_string(i) + " derivative " +
                              std::to_string(dd));
        c.count("nodes-checked");
      }
      for (const auto &b : bcs) {
        const size_t k = b.last ? extraL + nx - 2 : extraL;
        const R at = b.last ? xs.back() : xs.front();
        if (model::peval(model::pderiv(d.pc[k], b.deriv), at) != b.value)
          c.violation("C12", std::string("boundary-condition/") +
                                 (b.last ? "LAST" : "FIRST") + "/" + tag,
                      desc + " derivative " + std::to_string(b.deriv));
        c.count("boundary-rows-checked");
      }
    } else {
      if (!splineFinite(s)) {
        c.violation("C12", "non-finite/" + tag, desc);
        return;
      }
      // normwise backward error of the re-assembled system
      std::vector<R> xh;
      for (size_t j = 0; j < s.getCoefficients().size(); j++)
        for (const auto &v : midCoeffs(s, j)) xh.push_back(v);
      double res2 = 0, m2 = 0, x2 = 0, b2 = 0;
      for (size_t i = 0; i < sys.n; i++) {
        R r = -sys.b[i];
        for (size_t j = 0; j < sys.n; j++) {
          if (sys.M[i][j] == 0) continue;
          r += sys.M[i][j] * xh[j];
          const double mij = todouble(sys.M[i][j]);
          m2 += mij * mij;
        }
        const double rd = todouble(r), bd = todouble(sys.b[i]);
        res2 += rd * rd;
        b2 += bd * bd;
      }
      for (const auto &v : xh) x2 += todouble(v) * todouble(v);
      const double bound = ST<T>::eps() * (double)sys.n *
                           (std::sqrt(m2) * std::sqrt(x2) + std::sqrt(b2));
      const double ratio = bound > 0 ? std::sqrt(res2) / bound : (res2 > 0 ? INFINITY : 0);
      c.maxval("backward-error-ratio", ratio);
      if (!(ratio <= 1024.0))
        c.violation("C12", "backward-error/" + tag,
                    desc + " residual/(n eps (|M||x|+|b|)) = " + std::to_string(ratio));
      c.count("residuals-checked");
    }
    Hasher h;
    h.s(desc);
    c.nontrivial(h.h);
    c.sample(desc + " -> " + splineStr(s), 3);
  } catch (const BSplineException &e) {
    c.violation("C12", "valid-problem-refused/order" + std::to_string(order),
                desc + " threw " + e.what());
  } catch (const std::exception &e) {
    c.violation("C12", "foreign-exception/order" + std::to_string(order),
                desc + " threw " + e.what());
  }
}

template <typename T>
void runCase(Ctx &c) {
  Rng g = c.rng();
  const size_t order = 1 + c.caseId % MAXORD;
  dispatchOrder<MAXORD>(order, [&](auto O) {
    if constexpr (O.value >= 1) interpCase<T, O.value>(c, g);
  });
}

}  // namespace

int main(int argc, char **argv) {
  return driverMain(argc, argv, "interp", ST<VT>::name(), runCase<VT>);
}
