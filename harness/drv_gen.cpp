// C01 (and C16 for floating types): generated basis == Cox-de Boor B-splines.
#include "lib.h"
#include "scalar.h"

#ifndef MAXP
#define MAXP 6
#endif

using namespace vf;

namespace {

struct KnotCase {
  size_t p = 0;
  std::vector<R> distinct;
  std::vector<size_t> mult;
  std::vector<R> knots;
  int route = 0;  // 0 knots alone, 1 own grid instance, 2 equal twin, 3 free fn
  const char *pattern = "";
  bool wellScaled = true;  // inside the C16 family (no power-of-two rescaling)
};

KnotCase genKnots(Ctx &c, Rng &g, bool wellScaled, int scaleExp) {
  KnotCase kc;
  const uint64_t k = c.caseId;
  kc.p = k % (MAXP + 1);
  const int pat = (int)((k / (MAXP + 1)) % 8);
  const size_t nd = (size_t)g.range(2, pat == 7 ? 14 : 8);
  kc.distinct = genGrid(g, wellScaled, nd, nd);
  if (scaleExp != 0) {
    // exact power-of-two rescaling (floating runs): "any positive spacings"
    const R f = scaleExp > 0 ? R(vq::Z(1) << (unsigned)scaleExp)
                             : R(R(1) / R(vq::Z(1) << (unsigned)(-scaleExp)));
    for (auto &x : kc.distinct) x *= f;
    kc.wellScaled = false;
  }
  kc.mult.assign(kc.distinct.size(), 1);
  const size_t p = kc.p;
  auto rndMult = [&]() { return (size_t)g.range(1, (int64_t)p + 2); };
  switch (pat) {
    case 0:
      kc.pattern = "simple";
      break;
    case 1:
      kc.pattern = "clamped";
      kc.mult.front() = kc.mult.back() = p + 1;
      break;
    case 2: {
      kc.pattern = "interior-repeat";
      if (nd >= 3) kc.mult[(size_t)g.range(1, (int64_t)nd - 2)] = rndMult();
      break;
    }
    case 3:
      kc.pattern = "left-over-full";
      kc.mult.front() = p + 1 + (size_t)g.range(0, 2);
      break;
    case 4:
      kc.pattern = "right-over-full";
      kc.mult.back() = p + 1 + (size_t)g.range(0, 2);
      break;
    case 5:
      kc.pattern = "random-mult";
      for (auto &m : kc.mult) m = rndMult();
      break;
    case 6:
      kc.pattern = "short";  // close to the minimum length p+1
      kc.distinct.resize(2);
      kc.mult.assign(2, 1);
      kc.mult[g.below(2)] = (size_t)g.range(1, (int64_t)p + 2);
      break;
    default:
      kc.pattern = "long-mixed";
      for (auto &m : kc.mult)
        if (g.chance(1, 3)) m = rndMult();
  }
  for (size_t i = 0; i < kc.distinct.size(); i++)
    for (size_t r = 0; r < kc.mult[i]; r++) kc.knots.push_back(kc.distinct[i]);
  kc.route = (int)g.below(4);
  return kc;
}

// Exhaustive mode: case k enumerates (order p, number of distinct values nd in
// 2..5, every multiplicity vector in {1..p+2}^nd); the distinct values are
// drawn at random. Returns false once k is beyond the enumeration.
bool genKnotsEnum(Ctx &c, Rng &g, bool wellScaled, KnotCase &kc) {
  uint64_t k = c.caseId;
  for (size_t p = 0; p <= MAXP; p++)
    for (size_t nd = 2; nd <= 5; nd++) {
      uint64_t count = 1;
      for (size_t i = 0; i < nd; i++) count *= (p + 2);
      if (k >= count) {
        k -= count;
        continue;
      }
      kc.p = p;
      kc.distinct = genGrid(g, wellScaled, nd, nd);
      kc.mult.assign(nd, 1);
      for (size_t i = 0; i < nd; i++) {
        kc.mult[i] = 1 + (size_t)(k % (p + 2));
        k /= (p + 2);
      }
      kc.pattern = "enumerated";
      for (size_t i = 0; i < nd; i++)
        for (size_t r = 0; r < kc.mult[i]; r++) kc.knots.push_back(kc.distinct[i]);
      kc.route = (int)g.below(4);
      return true;
    }
  return false;
}

std::string knotStr(const KnotCase &kc) {
  return std::string("{p:") + std::to_string(kc.p) + ",route:" +
         std::to_string(kc.route) + ",pattern:" + kc.pattern +
         ",knots:" + gridStr(kc.knots) + "}";
}

template <typename T, size_t p>
void checkOrder(Ctx &c, const KnotCase &kc) {
  using namespace bspline;
  const size_t m = kc.knots.size();
  std::vector<Spline<T, p>> res;
  bool threw = false;
  std::string what;
  std::optional<Grid<T>> callerGrid;
  try {
    std::vector<T> knots = mkVec<T>(kc.knots);
    switch (kc.route) {
      case 0: {
        BSplineGenerator<T> gen(knots);
        res = gen.template generateBSplines<p>();
        break;
      }
      case 1: {
        std::vector<T> gp = mkVec<T>(kc.distinct);
        // the caller's grid may spell a zero point as -0.0: the same number
        if constexpr (!ST<T>::exact)
          for (auto &x : gp)
            if (x == 0) {
              x = -x;
              c.count("supplied-grid:negative-zero");
            }
        callerGrid.emplace(gp);
        BSplineGenerator<T> gen(knots, *callerGrid);
        res = gen.template generateBSplines<p>();
        break;
      }
      case 2: {
        BSplineGenerator<T> first(knots);
        // a distinct but logically equal instance
        callerGrid.emplace(first.getGrid().begin(), first.getGrid().end());
        BSplineGenerator<T> gen(knots, *callerGrid);
        res = gen.template generateBSplines<p>();
        break;
      }
      default:
        res = bspline::generateBSplines<p, T>(knots);
    }
  } catch (const BSplineException &e) {
    threw = true;
    what = e.what();
  }
  const std::string tag = std::string("p") + std::to_string(p);
  if (m < p + 1) {
    c.count("too_short");
    if (!threw)
      c.violation("C11", "generator/too-few-knots-accepted/" + tag,
                  knotStr(kc));
    return;
  }
  if (threw) {
    c.violation("C01", "generator/valid-knots-refused/" + tag,
                knotStr(kc) + " threw " + what);
    return;
  }
  c.count("generated");
  c.count(std::string("pattern:") + kc.pattern);
  c.count("order:" + std::to_string(p));
  c.count("route:" + std::to_string(kc.route));
  if (res.size() != m - p - 1) {
    c.violation("C01", "generator/count/" + tag,
                knotStr(kc) + " returned " + std::to_string(res.size()) +
                    " functions, expected " + std::to_string(m - p - 1));
    return;
  }
  const std::vector<Den> ref = model::coxDeBoor(kc.knots, p);
  bool anyNonZero = false;
  for (size_t i = 0; i < res.size(); i++) {
    // supplied-grid route: the results must live on the caller's grid object
    if (callerGrid &&
        res[i].getSupport().getGrid().getData() != callerGrid->getData()) {
      c.violation("C01", "generator/supplied-grid-not-used/" + tag,
                  knotStr(kc));
      return;
    }
    Verdict v = agreeSpline(res[i], ref[i]);
    if constexpr (!ST<T>::exact) c.maxval("ratio:generate", v.ratio);
    if (!v.ok) {
      c.violation("C01",
                  std::string("generator/coxdeboor/") + tag,
                  knotStr(kc) + " function i=" + std::to_string(i) + ": " +
                      v.why);
      if constexpr (!ST<T>::exact)
        if (kc.wellScaled && p <= 6)  // the C16 family: orders up to 6
          c.violation("C16", "generate/" + tag, knotStr(kc) + " " + v.why);
      return;
    }
    if (!model::dzerop(ref[i])) anyNonZero = true;
  }
  if (anyNonZero) {
    Hasher h;
    h.u(p);
    h.u(kc.route);
    for (const auto &t : kc.knots) h.r(t);
    c.nontrivial(h.h);
  }
  c.sample(knotStr(kc) + " -> " + std::to_string(res.size()) +
           " functions, all equal to Cox-de Boor");

  // Direct observations on the library output (independent of the model's
  // recursion): exact type only.
  if constexpr (ST<T>::exact) {
    std::vector<Den> out;
    for (const auto &s : res) out.push_back(denote(s));
    const std::vector<R> &grid = out.empty() ? kc.distinct : out[0].grid;
    // (1) zero outside [t_i, t_{i+p+1}]
    for (size_t i = 0; i < out.size(); i++)
      for (size_t k = 0; k + 1 < grid.size(); k++) {
        const bool inside =
            grid[k] >= kc.knots[i] && grid[k + 1] <= kc.knots[i + p + 1];
        if (!inside && !model::pzero(out[i].pc[k])) {
          c.violation("C01", "generator/nonzero-outside-support/" + tag,
                      knotStr(kc) + " i=" + std::to_string(i) + " interval " +
                          std::to_string(k));
          return;
        }
      }
    c.count("obs:local-support", out.size());
    // (2) C^{p-mu} across a knot of multiplicity mu
    for (size_t gi = 1; gi + 1 < grid.size(); gi++) {
      size_t mu = 0;
      for (const auto &t : kc.knots)
        if (t == grid[gi]) mu++;
      if (mu > p) continue;  // no continuity promised
      for (size_t i = 0; i < out.size(); i++)
        for (size_t d = 0; d + mu <= p; d++) {
          const R l = model::peval(model::pderiv(out[i].pc[gi - 1], d), grid[gi]);
          const R r = model::peval(model::pderiv(out[i].pc[gi], d), grid[gi]);
          if (l != r) {
            c.violation("C01", "generator/continuity/" + tag,
                        knotStr(kc) + " i=" + std::to_string(i) + " knot " +
                            model::rstr(grid[gi]) + " derivative " +
                            std::to_string(d));
            return;
          }
          c.count("obs:continuity");
        }
    }
    // (3) partition of unity on every interval inside [t_p, t_{m-p-1}]
    if (m >= 2 * p + 2) {
      const R lo = kc.knots[p], hi = kc.knots[m - p - 1];
      for (size_t k = 0; k + 1 < grid.size(); k++) {
        if (!(grid[k] >= lo && grid[k + 1] <= hi)) continue;
        Poly sum;
        for (const auto &d : out) sum = model::padd(sum, d.pc[k]);
        if (!model::peq(sum, Poly{R(1)})) {
          c.violation("C01", "generator/partition-of-unity/" + tag,
                      knotStr(kc) + " interval " + std::to_string(k) +
                          " sum " + model::pstr(sum));
          return;
        }
        c.count("obs:partition-of-unity");
      }
    }
    // (4) the model itself against the value-based recursion (independence)
    if (c.caseId % 16 == 0 && !ref.empty()) {
      for (size_t i = 0; i < ref.size(); i++)
        for (size_t k = 0; k + 1 < grid.size(); k++) {
          const R x = grid[k] + (grid[k + 1] - grid[k]) / 3;
          if (model::peval(ref[i].pc[k], x) !=
              model::coxDeBoorValue(kc.knots, i, p, x)) {
            fprintf(stderr, "VF-HARNESS-ERROR model self-check failed\n");
            _exit(3);
          }
          c.count("obs:model-selfcheck");
        }
    }
  }
}

// A long-lived generator object: created in an earlier case, asked again and
// again while other grids and generators come and go. It must keep returning
// the same basis, and that basis must keep matching its knots.
template <typename T>
void persistentGeneratorCase(Ctx &c, Rng &g) {
  static std::optional<bspline::BSplineGenerator<T>> gen;
  static std::vector<R> knots;
  static std::vector<bspline::Spline<T, 3>> first;
  const bool wellScaled = !ST<T>::exact;
  if (!gen || c.caseId % 1024 == 33) {
    const std::vector<R> d = genGrid(g, wellScaled, 4, 9);
    knots.clear();
    for (size_t i = 0; i < d.size(); i++)
      for (size_t r = 0, m = (size_t)g.range(1, 3); r < m; r++) knots.push_back(d[i]);
    gen.emplace(mkVec<T>(knots));
    first = gen->template generateBSplines<3>();
    return;
  }
  const auto again = gen->template generateBSplines<3>();
  const auto ref = model::coxDeBoor(knots, 3);
  bool same = again.size() == first.size() && again.size() == ref.size();
  for (size_t i = 0; same && i < again.size(); i++)
    same = again[i] == first[i] && agreeSpline(again[i], ref[i]).ok &&
           again[i].getSupport().getGrid().getData() ==
               first[i].getSupport().getGrid().getData();
  if (!same)
    c.violation("C01", "generator/long-lived-generator-changed",
                "a generator created in an earlier case returns a different "
                "order-3 basis now; knots " + gridStr(knots));
  c.count("persistent-generator:checked");
}

template <typename T>
void runCase(Ctx &c) {
  Rng g = c.rng();
  if (c.caseId % 64 == 33 && !c.param("enum", 0)) {
    persistentGeneratorCase<T>(c, g);
    return;
  }
  const bool wellScaled = !ST<T>::exact || c.param("wellscaled", 0);
  // Floating types only: half of the cases are rescaled by an exact power of
  // two (no overflow/underflow by construction: (3+|e|)*p stays far inside
  // the exponent range), which leaves every rounding error relatively
  // unchanged, so the same bound applies.
  int scaleExp = 0;
  if constexpr (!ST<T>::exact) {
    const size_t p = c.caseId % (MAXP + 1);
    const int L = std::is_same_v<T, float> ? 100 : 900;
    const int emax = std::min(200, L / (int)std::max<size_t>(p, 1) - 3);
    static const int num[] = {0, 0, -4, -2, 2, -1, 1, 0};
    scaleExp = emax * num[(c.caseId / ((MAXP + 1) * 8)) % 8] / 4;
    c.count(scaleExp == 0 ? "scale:1" : (scaleExp < 0 ? "scale:tiny" : "scale:huge"));
  }
  KnotCase kc;
  if (c.param("enum", 0)) {
    if (!genKnotsEnum(c, g, wellScaled, kc)) {
      c.count("beyond-enumeration");
      return;
    }
  } else
    kc = genKnots(c, g, wellScaled, scaleExp);
  dispatchOrder<MAXP>(kc.p, [&](auto P) { checkOrder<T, P.value>(c, kc); });
}

}  // namespace

int main(int argc, char **argv) {
  return driverMain(argc, argv, "gen", ST<VT>::name(), runCase<VT>);
}
