// C04: primitive operators are d^n/dx^n and multiplication by x^n on every
// interval; identity returns an equal spline; results keep the operand window.
#include "lib.h"
#include "scalar.h"

#ifndef MAXO
#define MAXO 6
#endif
#ifndef MAXN
#define MAXN 8
#endif

using namespace vf;
using bspline::Spline;
using bspline::exceptions::BSplineException;
using bspline::support::Grid;

namespace {

template <typename T, size_t o, size_t nn>
void opCase(Ctx &c, Rng &g, int kind) {
  using namespace bspline::operators;
  const bool dyadic = !ST<T>::exact;
  const bool large = c.caseId % 32 == 31;  // occasionally 65..120 points
  const std::vector<R> pts =
      large ? genGrid(g, dyadic, 65, 120) : genGrid(g, dyadic, 2, 9);
  c.count(large ? "grid:large" : "grid:small");
  const size_t n = pts.size();
  const Grid<T> grid = mkGrid<T>(pts);
  Win w;
  const char *wname;
  switch ((int)g.below(6)) {
    case 0:
      w = Win{0, n};
      wname = "whole-grid";
      break;
    case 1:
      w = Win{0, 0};
      wname = "empty";
      break;
    case 2: {
      const size_t p = g.below(n);
      w = Win{p, p + 1};
      wname = "point-like";
      break;
    }
    case 3:
      w = Win{n - 2, n};
      wname = "last-interval";
      break;
    default:
      w = genWin(g, n);
      wname = "sub-window";
  }
  const CoefM cm = genCoefM(g, dyadic, w.nint(), o);
  const Spline<T, o> s = mkSpline<T, o>(grid, w.start, w.end, cm);
  const Den ds = denote(s);
  const AbsM as = absOf(s);
  static const char *kn[] = {"Dx", "X", "Identity"};
  const std::string tag = std::string(kn[kind]) + "<" + std::to_string(nn) +
                          ">/order" + std::to_string(o);
  const std::string desc =
      tag + " grid " + (large ? std::to_string(n) + " points" : gridStr(pts)) +
      " operand " + (large ? "window " + winStr(w) : splineStr(s));
  c.count(std::string("window:") + wname);
  c.count(std::string("op:") + kn[kind] + std::to_string(nn));
  c.count("order:" + std::to_string(o));
  if (kind == 0 && nn == o) c.count("boundary:n==order");
  if (kind == 0 && nn == o + 1) c.count("boundary:n==order+1");
  auto judge = [&](const auto &res, const Den &ex, const AbsM &sc) {
    Verdict v = agreeSpline(res, ex, ST<T>::exact ? nullptr : &sc);
    if constexpr (!ST<T>::exact)
      c.maxval(std::string("ratio:") + kn[kind], v.ratio);
    if (!v.ok) {
      c.violation("C04", "denotation/" + tag, desc + " -> " + splineStr(res) +
                                                  ": " + v.why);
      if constexpr (!ST<T>::exact) c.violation("C16", "ops/" + tag, v.why);
    }
    if (res.getSupport().getStartIndex() != w.start ||
        res.getSupport().getEndIndex() != w.end ||
        !(res.getSupport() == s.getSupport()))
      c.violation("C04", "window/" + tag, desc + " -> " + splineStr(res));
    c.count("applied");
    if (!model::dzerop(ds)) {
      Hasher h;
      h.s(tag);
      h.u(w.start * 1000 + w.end);
      for (const auto &p : pts) h.r(p);
      for (const auto &row : cm)
        for (const auto &x : row) h.r(x);
      c.nontrivial(h.h);
    }
    c.sample(desc + " -> " + splineStr(res));
  };
  try {
    if (kind == 0) {
      auto res = Dx<nn>{} * s;
      static_assert(std::decay_t<decltype(res)>::spline_order ==
                    (nn > o ? 0 : o - nn));
      judge(res, model::dderiv(ds, nn), absDeriv(as, nn));
    } else if (kind == 1) {
      auto res = X<nn>{} * s;
      static_assert(std::decay_t<decltype(res)>::spline_order == o + nn);
      judge(res, model::dmulx(ds, nn), absMulX(as, nn, pts));
    } else {
      auto res = IdentityOperator{} * s;
      if (!(res == s) || res != s)
        c.violation("C04", "identity-not-equal/" + tag, desc);
      judge(res, ds, as);
    }
  } catch (const BSplineException &e) {
    c.violation("C04", "unexpected-throw/" + tag, desc + " threw " + e.what());
  } catch (const std::exception &e) {
    c.violation("C04", "foreign-exception/" + tag, desc + " threw " + e.what());
  }
}

template <typename T>
void runCase(Ctx &c) {
  Rng g = c.rng();
  const uint64_t k = c.caseId;
  const size_t o = k % (MAXO + 1);
  const size_t nn = (k / (MAXO + 1)) % (MAXN + 1);
  const int kind = (int)((k / ((MAXO + 1) * (MAXN + 1))) % 5);  // 0,1 Dx 2,3 X 4 I
  dispatchOrder<MAXO>(o, [&](auto O) {
    dispatchOrder<MAXN>(nn, [&](auto N) {
      opCase<T, O.value, N.value>(c, g, kind < 2 ? 0 : (kind < 4 ? 1 : 2));
    });
  });
}

}  // namespace

int main(int argc, char **argv) {
  return driverMain(argc, argv, "ops", ST<VT>::name(), runCase<VT>);
}
