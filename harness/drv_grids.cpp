// C08: operations across logically different grids are refused (library
// exception, differing-grids code, nothing returned, arguments unchanged);
// distinct grid objects with equal points are the same grid. Also the
// cross-grid part of C15 (equality never holds across different grids).
#include "lib.h"
#include "scalar.h"

#ifndef VT_Q
#include <bspline/integration/numerical.h>
#endif

#ifndef MAXO
#define MAXO 2
#endif

using namespace vf;
using bspline::Spline;
using bspline::exceptions::BSplineException;
using bspline::exceptions::ErrorCode;
using bspline::support::Grid;
using bspline::support::Support;

namespace {

enum Diff {
  D_TWIN,        // equal points, distinct object (control: must work)
  D_MOVED_FIRST,
  D_MOVED_LAST,
  D_MOVED_INNER,
  D_EXTRA_LEFT,
  D_EXTRA_RIGHT,
  D_EXTRA_INSIDE,
  D_PREFIX,
  D_SUFFIX,
  D_EQUAL_WHERE_SUPPORTS_MEET,  // differs only outside the hull of both windows
  D_TWO_MOVED_SUM_PRESERVED,    // same size, same sum of points, two points moved
  D_COUNT
};
const char *diffName(int d) {
  static const char *n[] = {"twin",         "moved-first",  "moved-last",
                            "moved-inner",  "extra-left",   "extra-right",
                            "extra-inside", "prefix",       "suffix",
                            "equal-where-supports-meet",
                            "two-moved-sum-preserved"};
  return n[d];
}

enum Entry {
  E_ADD,
  E_SUB,
  E_MUL,
  E_ADD_ASSIGN,
  E_SUB_ASSIGN,
  E_LINCOMB,
  E_BILINEAR,
  E_BILINEAR_OPS,
  E_INTEGRATE,
  E_FACTOR_APPLY,
  E_FACTOR_LINEAR,
  E_FACTOR_BILINEAR,
  E_SUPPORT_UNION,
  E_SUPPORT_INTERSECTION,
  E_EQUALITY,
  E_COUNT
};
const char *entryName(int e) {
  static const char *n[] = {"add",           "sub",
                            "mul",           "add-assign",
                            "sub-assign",    "linear-combination",
                            "bilinear-form", "bilinear-form-operators",
                            "integrate",     "factor-apply",
                            "factor-linear-form", "factor-bilinear-form",
                            "support-union", "support-intersection",
                            "equality"};
  return n[e];
}

// the spline factor b inside an operator expression of a chosen shape (the
// grid check has to survive every wrapper around the factor)
constexpr int FACTOR_SHAPES = 10;
const char *factorShapeName(int s) {
  static const char *n[] = {"V", "c*V", "V*c", "V/c", "-V", "c*(X*V)", "Dx+c*V",
                            "V+c", "c-V", "(V*Dx)/2"};
  return n[s];
}
template <typename T, typename F>
void factorShape(int shape, const T &cs, F &&f) {
  using namespace bspline::operators;
  // f receives a maker: maker(v) builds the expression around the factor v
  switch (shape) {
    case 0: f([&](const auto &v) { return SplineOperator{v}; }); break;
    case 1: f([&](const auto &v) { return cs * SplineOperator{v}; }); break;
    case 2: f([&](const auto &v) { return SplineOperator{v} * cs; }); break;
    case 3: f([&](const auto &v) { return SplineOperator{v} / cs; }); break;
    case 4: f([&](const auto &v) { return -SplineOperator{v}; }); break;
    case 5: f([&](const auto &v) { return cs * (X<1>{} * SplineOperator{v}); }); break;
    case 6: f([&](const auto &v) { return Dx<1>{} + cs * SplineOperator{v}; }); break;
    case 7: f([&](const auto &v) { return SplineOperator{v} + cs; }); break;
    case 8: f([&](const auto &v) { return cs - SplineOperator{v}; }); break;
    default: f([&](const auto &v) { return (SplineOperator{v} * Dx<1>{}) / 2; }); break;
  }
}

struct Outcome {
  bool threw = false, libException = false, rightCode = false;
  std::string what;
};

template <typename F>
Outcome attempt(F &&f) {
  Outcome o;
  try {
    f();
  } catch (const BSplineException &e) {
    o.threw = o.libException = true;
    o.rightCode = e.getErrorCode() == ErrorCode::DIFFERING_GRIDS;
    o.what = e.what();
  } catch (const std::exception &e) {
    o.threw = true;
    o.what = e.what();
  }
  return o;
}

template <typename T, size_t oa, size_t ob>
void gridCase(Ctx &c, Rng &g, int diff, int entry) {
  using namespace bspline::operators;
  using namespace bspline::integration;
  const bool dyadic = !ST<T>::exact;
  const std::vector<R> p1 = genGrid(g, dyadic, PLACEMENT_MIN_POINTS, 10);
  const size_t n = p1.size();
  // windows first (indices valid on both grids are arranged below)
  const int pl = (int)g.below(P_COUNT);
  auto pr = genPlacement(g, n, pl);
  Win wa = pr.first, wb = pr.second;
  std::vector<R> p2 = p1;
  const R step = dyadic ? R(1) / 16 : R(1) / 3;
  switch (diff) {
    case D_TWIN:
      break;
    case D_MOVED_FIRST:
      p2.front() -= step;
      break;
    case D_MOVED_LAST:
      p2.back() += step;
      break;
    case D_MOVED_INNER: {
      const size_t k = (size_t)g.range(1, (int64_t)n - 2);
      p2[k] = (p2[k] + p2[k + 1]) / 2;
      break;
    }
    case D_EXTRA_LEFT:
      p2.insert(p2.begin(), p2.front() - 1);
      break;
    case D_EXTRA_RIGHT:
      p2.push_back(p2.back() + 1);
      break;
    case D_EXTRA_INSIDE: {
      const size_t k = (size_t)g.range(0, (int64_t)n - 2);
      p2.insert(p2.begin() + (long)k + 1, (p2[k] + p2[k + 1]) / 2);
      break;
    }
    case D_PREFIX:
      p2.pop_back();
      break;
    case D_SUFFIX:
      p2.erase(p2.begin());
      break;
    case D_TWO_MOVED_SUM_PRESERVED: {
      // neighbours k, k+1 move towards each other by the same dyadic amount
      const size_t k = (size_t)g.range(0, (int64_t)n - 2);
      const R d = (p2[k + 1] - p2[k]) / 4;
      p2[k] += d;
      p2[k + 1] -= d;
      break;
    }
    default: {
      // keep both windows inside [1, n-1) and move the outermost points only
      auto clampW = [&](Win &w) {
        if (w.empty()) return;
        if (w.start == 0) w.start = 1;
        if (w.end == n) w.end = n - 1;
        if (w.end <= w.start) w = Win{1, 2};
      };
      clampW(wa);
      clampW(wb);
      if (g.chance(1, 2))
        p2.front() -= step;
      else
        p2.back() += step;
    }
  }
  const size_t n2 = p2.size();
  // b lives on grid 2: keep its window valid there
  if (!wb.empty()) {
    if (wb.end > n2) wb.end = n2;
    if (wb.start >= wb.end) wb = Win{0, std::min<size_t>(2, n2)};
  }
  const bool different = diff != D_TWIN;
  const Grid<T> g1 = mkGrid<T>(p1);
  std::vector<T> v2 = mkVec<T>(p2);
  if constexpr (!ST<T>::exact)
    if (diff == D_TWIN)  // an equal twin may spell a zero point as -0.0
      for (auto &x : v2)
        if (x == 0) {
          x = -x;
          c.count("twin:negative-zero");
        }
  const Grid<T> g2{v2};
  Spline<T, oa> a =
      mkSpline<T, oa>(g1, wa.start, wa.end, genCoefM(g, dyadic, wa.nint(), oa));
  const CoefM cmb = genCoefM(g, dyadic, wb.nint(), ob);
  Spline<T, ob> b = mkSpline<T, ob>(g2, wb.start, wb.end, cmb);
  const std::string desc = std::string(entryName(entry)) + " [" + diffName(diff) +
                           "] grid1 " + gridStr(p1) + " grid2 " + gridStr(p2) +
                           " a=" + splineStr(a) + " b=" + splineStr(b);
  const std::string key = std::string(entryName(entry)) + "/" + diffName(diff);
  c.count(std::string("entry:") + entryName(entry));
  c.count(std::string("diff:") + diffName(diff));
  c.count(std::string("place:") + placementName(classify(wa, wb)));
  const Snap<T> sa0 = snapOf(a), sb0 = snapOf(b);

  bool applicable = true;   // the entry point exists for this combination
  bool mustThrow = different;
  Outcome out;
  // for the twin control: result with a shared instance
  auto sharedB = [&]() {
    return mkSpline<T, ob>(g1, wb.start, wb.end, cmb);
  };
  bool twinMismatch = false;
  const int shape = (int)g.below(FACTOR_SHAPES);
  const T fcs = mk<T>(genScalar(g, dyadic));
  switch (entry) {
    case E_ADD:
      out = attempt([&] {
        auto r = a + b;
        if (!different && !(r == a + sharedB())) twinMismatch = true;
      });
      break;
    case E_SUB:
      out = attempt([&] {
        auto r = b - a;
        if (!different && !(r == sharedB() - a)) twinMismatch = true;
      });
      break;
    case E_MUL:
      out = attempt([&] {
        auto r = a * b;
        if (!different && !(r == a * sharedB())) twinMismatch = true;
      });
      break;
    case E_ADD_ASSIGN:
    case E_SUB_ASSIGN:
      if constexpr (ob <= oa) {
        const Spline<T, oa> a0 = a;
        out = attempt([&] {
          if (entry == E_ADD_ASSIGN)
            a += b;
          else
            a -= b;
          if (!different) {
            Spline<T, oa> ref = a0;
            if (entry == E_ADD_ASSIGN)
              ref += sharedB();
            else
              ref -= sharedB();
            if (!(a == ref)) twinMismatch = true;
          }
        });
        if (!different) a = a0;  // restore for the snapshot comparison
      } else
        applicable = false;
      break;
    case E_LINCOMB:
      if constexpr (oa == ob) {
        const size_t k = (size_t)g.range(2, 5), odd = g.below(k);
        std::vector<Spline<T, oa>> ms;
        std::vector<T> cs;
        for (size_t i = 0; i < k; i++) {
          ms.push_back(i == odd ? b : a);
          cs.push_back(mk<T>(genScalar(g, dyadic)));
        }
        c.count("lincomb:odd-one-at:" + std::string(odd == 0 ? "first" : (odd + 1 == k ? "last" : "middle")));
        out = attempt([&] {
          auto r = bspline::linearCombination(cs, ms);
          if (!different) {
            ms[odd] = sharedB();
            if (!(r == bspline::linearCombination(cs, ms))) twinMismatch = true;
          }
        });
      } else
        applicable = false;
      break;
    case E_BILINEAR:
      out = attempt([&] {
        const T v = ScalarProduct{}(a, b);
        if (!different && !(v == ScalarProduct{}(a, sharedB())))
          twinMismatch = true;
      });
      break;
    case E_BILINEAR_OPS:
      out = attempt([&] {
        const T v = BilinearForm{X<1>{}, Dx<1>{}}(b, a);
        if (!different && !(v == BilinearForm{X<1>{}, Dx<1>{}}(sharedB(), a)))
          twinMismatch = true;
      });
      break;
    case E_INTEGRATE:
#ifndef VT_Q
      out = attempt([&] {
        const T v = integrate<3>([](const T &x) { return x; }, a, b);
        if (!different &&
            !(v == integrate<3>([](const T &x) { return x; }, a, sharedB())))
          twinMismatch = true;
      });
#else
      applicable = false;
#endif
      break;
    case E_FACTOR_APPLY:
      // b is the factor; required to throw only if the operator is applied to
      // at least one interval of the operand
      mustThrow = different && wa.nint() > 0;
      c.count(std::string("factor-shape:") + factorShapeName(shape));
      out = attempt([&] {
        factorShape<T>(shape, fcs, [&](auto mkop) {
          auto r = mkop(b) * a;
          if (!different && !(r == mkop(sharedB()) * a)) twinMismatch = true;
        });
      });
      break;
    case E_FACTOR_LINEAR:
      mustThrow = different && wa.nint() > 0;
      c.count(std::string("factor-shape:") + factorShapeName(shape));
      out = attempt([&] {
        factorShape<T>(shape, fcs, [&](auto mkop) {
          const T v = LinearForm{Dx<1>{} * mkop(b)}(a);
          if (!different && !(v == LinearForm{Dx<1>{} * mkop(sharedB())}(a)))
            twinMismatch = true;
        });
      });
      break;
    case E_FACTOR_BILINEAR: {
      // a and a2 on grid 1, factor b on grid 2
      const Win w2 = genWin(g, n);
      const Spline<T, oa> a2 = mkSpline<T, oa>(
          g1, w2.start, w2.end, genCoefM(g, dyadic, w2.nint(), oa));
      const size_t lo = std::max(wa.start, w2.start),
                   hi = std::min(wa.end, w2.end);
      const bool share = !wa.empty() && hi > lo && hi - lo >= 2;
      mustThrow = different && share;
      c.count(std::string("factor-shape:") + factorShapeName(shape));
      const bool leftSlot = g.chance(1, 2);
      out = attempt([&] {
        factorShape<T>(shape, fcs, [&](auto mkop) {
          auto form = [&](const auto &fac) {
            return leftSlot ? BilinearForm{X<1>{} + mkop(fac), Dx<1>{}}(a, a2)
                            : BilinearForm{Dx<1>{}, X<1>{} + mkop(fac)}(a, a2);
          };
          const T v = form(b);
          if (!different && !(v == form(sharedB()))) twinMismatch = true;
        });
      });
      if (different && !share) c.count("factor-bilinear:not-judged-no-common-interval");
      break;
    }
    case E_SUPPORT_UNION:
      out = attempt([&] {
        auto r = a.getSupport().calcUnion(b.getSupport());
        if (!different && !(r == a.getSupport().calcUnion(sharedB().getSupport())))
          twinMismatch = true;
      });
      break;
    case E_SUPPORT_INTERSECTION:
      out = attempt([&] {
        auto r = b.getSupport().calcIntersection(a.getSupport());
        if (!different &&
            !(r == sharedB().getSupport().calcIntersection(a.getSupport())))
          twinMismatch = true;
      });
      break;
    default: {
      // C15 across grids: same window and coefficients, different grid
      if constexpr (oa == ob) {
        if (wa.end <= n2 || wa.empty()) {
          const CoefM cm = genCoefM(g, dyadic, wa.nint(), oa);
          const Spline<T, oa> x1 = mkSpline<T, oa>(g1, wa.start, wa.end, cm);
          const Spline<T, oa> x2 = mkSpline<T, oa>(g2, wa.start, wa.end, cm);
          const bool eq = x1 == x2, ne = x1 != x2, eqr = x2 == x1;
          const bool seq = x1.getSupport() == x2.getSupport();
          const bool geq = g1 == g2, gne = g1 != g2;
          const bool same = x1.getSupport().hasSameGrid(x2.getSupport());
          const bool expect = !different;
          if (eq != expect || eqr != expect || ne == expect || seq != expect ||
              geq != expect || gne == expect || same != expect)
            c.violation("C15", "equality-across-grids/" + std::string(diffName(diff)),
                        desc + " x1=" + splineStr(x1) + ": spline== " +
                            (eq ? "true" : "false") + " support== " +
                            (seq ? "true" : "false") + " grid== " +
                            (geq ? "true" : "false") + ", expected " +
                            (expect ? "true" : "false"));
          c.count("c15:equality-across-grids");
          if (!wa.empty() && different) {
            Hasher h;
            h.s(desc);
            c.nontrivial(h.h);
          }
        }
      }
      applicable = false;  // nothing to throw here
    }
  }
  if (!applicable) {
    c.count("not-applicable");
    return;
  }
  c.count("calls");
  if (different) {
    if (mustThrow) {
      if (!out.threw)
        c.violation("C08", "computed-across-grids/" + key, desc);
      else if (!out.libException)
        c.violation("C08", "foreign-exception/" + key, desc + " threw " + out.what);
      else if (!out.rightCode)
        c.violation("C08", "wrong-error-code/" + key, desc + " threw " + out.what);
      else
        c.count("refused");
      Hasher h;
      h.s(desc);
      c.nontrivial(h.h);
    } else {
      c.count("not-judged");
      if (out.threw && !out.libException)
        c.violation("C08", "foreign-exception/" + key, desc + " threw " + out.what);
    }
  } else {
    if (out.threw)
      c.violation("C08", "equal-grids-refused/" + key, desc + " threw " + out.what);
    else if (twinMismatch)
      c.violation("C08", "equal-grids-different-result/" + key, desc);
    else
      c.count("twin-agrees");
  }
  // arguments unchanged (bit-identical, same grid objects)
  if (!(snapOf(a) == sa0) || !(snapOf(b) == sb0))
    c.violation("C08", "argument-changed/" + key, desc + " now a=" +
                                                      splineStr(a) + " b=" +
                                                      splineStr(b));
  c.sample(desc + " -> " + (out.threw ? "threw " + out.what : "no exception"), 4);
}

// generator with a supplied grid that does not match the knots
template <typename T>
void generatorCase(Ctx &c, Rng &g, int diff) {
  const bool dyadic = !ST<T>::exact;
  const std::vector<R> p1 = genGrid(g, dyadic, 3, 8);
  std::vector<R> knots;
  for (const auto &x : p1)
    for (size_t r = 0, m = (size_t)g.range(1, 3); r < m; r++) knots.push_back(x);
  std::vector<R> p2 = p1;
  const R step = dyadic ? R(1) / 16 : R(1) / 3;
  switch (diff % 6) {
    case 0:
      break;
    case 1:
      p2.back() += step;
      break;
    case 2:
      p2.front() -= step;
      break;
    case 3:
      p2.push_back(p2.back() + 1);
      break;
    case 4:
      p2.pop_back();
      break;
    default:
      p2[1] = (p2[0] + p2[1]) / 2;
  }
  const bool different = diff % 6 != 0;
  if (p2.size() < 2) return;
  const Grid<T> supplied = mkGrid<T>(p2);
  const std::string desc = "generator knots " + gridStr(knots) +
                           " supplied grid " + gridStr(p2);
  Outcome out = attempt([&] {
    bspline::BSplineGenerator<T> gen(mkVec<T>(knots), supplied);
    auto r = gen.template generateBSplines<1>();
    (void)r;
  });
  c.count("generator-calls");
  if (different) {
    if (!out.threw)
      c.violation("C08", "generator-accepts-mismatching-grid", desc);
    else if (!out.libException)
      c.violation("C08", "foreign-exception/generator", desc + " " + out.what);
    else
      c.count("generator-refused");
    Hasher h;
    h.s(desc);
    c.nontrivial(h.h);
  } else if (out.threw)
    c.violation("C08", "generator-refuses-matching-grid", desc + " " + out.what);
}

// A long-lived operator with a spline factor: its last successful use was on
// a separate-but-equal grid instance that has been destroyed since; a
// different grid of the same size (very likely at the same address) must
// still be refused.
template <typename T>
void persistentOperatorCase(Ctx &c, Rng &g) {
  using namespace bspline::operators;
  using namespace bspline::integration;
  static std::optional<SplineOperator<T, 1>> op;
  static std::vector<R> pts;
  const bool dyadic = !ST<T>::exact;
  if (!op || c.caseId % 512 == 14) {
    pts = genGrid(g, dyadic, PLACEMENT_MIN_POINTS, 10);
    const Grid<T> gv = mkGrid<T>(pts);
    op.emplace(mkSpline<T, 1>(gv, 0, pts.size(), genCoefM(g, dyadic, pts.size() - 1, 1)));
  }
  // long-lived splines produced through the supplied-grid route of the
  // generator (which compares the caller's grid with a temporary one)
  static std::vector<Spline<T, 2>> basisP;
  static std::vector<R> basisPts;
  if (basisP.empty() || c.caseId % 256 == 30) {
    basisPts = genGrid(g, dyadic, 5, 9);
    std::vector<R> kn;
    for (const auto &x : basisPts)
      for (size_t r = 0, m = (size_t)g.range(1, 2); r < m; r++) kn.push_back(x);
    const Grid<T> callers = mkGrid<T>(basisPts);
    bspline::BSplineGenerator<T> gen(mkVec<T>(kn), callers);
    basisP = gen.template generateBSplines<2>();
  }
  if (!basisP.empty()) {
    // a different grid of the same size, allocated now, on the right-hand side
    std::vector<R> o2 = basisPts;
    const size_t kk = (size_t)g.range(0, (int64_t)o2.size() - 1);
    o2[kk] += (kk + 1 < o2.size() ? (o2[kk + 1] - o2[kk]) : R(1)) / 2;
    const Grid<T> d2 = mkGrid<T>(o2);
    const Spline<T, 2> &P = basisP[g.below(basisP.size())];
    const Spline<T, 2> sD(Support<T>(d2, P.getSupport().getStartIndex(),
                                     P.getSupport().getEndIndex()),
                          P.getCoefficients());
    bool refusedP = false;
    try {
      auto r = P * sD;
      (void)r;
    } catch (const BSplineException &e) {
      refusedP = e.getErrorCode() == ErrorCode::DIFFERING_GRIDS;
    } catch (const std::exception &) {
    }
    if (P == sD || !(P != sD) || P.getSupport() == sD.getSupport() ||
        P.getSupport().getGrid() == d2 || P.getSupport().hasSameGrid(sD.getSupport()))
      c.violation("C15", "equality-across-grids/long-lived-spline",
                  "a long-lived generated spline compares equal to a spline on "
                  "a different grid of the same size: " + gridStr(basisPts) +
                      " vs " + gridStr(o2));
    if (!refusedP)
      c.violation("C08", "computed-across-grids/long-lived-spline",
                  gridStr(basisPts) + " vs " + gridStr(o2));
    c.count("c15:equality-across-grids");
    c.count("long-lived-spline:checked");
  }
  const size_t n = pts.size();
  const Win w = genWin(g, n);
  const CoefM cm = genCoefM(g, dyadic, w.nint(), 2);
  bool okEqual = true;
  std::string what;
  {
    const Grid<T> equal = mkGrid<T>(pts);  // separate but equal instance
    const Spline<T, 2> s = mkSpline<T, 2>(equal, w.start, w.end, cm);
    try {
      auto r = *op * s;
      const T lf = LinearForm{*op}(s);
      const T bf = BilinearForm{*op}(s, s);
      (void)r;
      (void)lf;
      (void)bf;
    } catch (const std::exception &e) {
      okEqual = false;
      what = e.what();
    }
  }  // the equal instance and everything on it are destroyed here
  if (!okEqual)
    c.violation("C08", "equal-grids-refused/persistent-operator", what);
  std::vector<R> other = pts;
  const size_t k = (size_t)g.range(0, (int64_t)n - 1);
  other[k] += (k + 1 < n ? (other[k + 1] - other[k]) : R(1)) / 2;
  const Grid<T> different = mkGrid<T>(other);  // same size, other points
  const Spline<T, 2> s2 = mkSpline<T, 2>(different, w.start, w.end, cm);
  int refused = 0;
  auto must = [&](auto &&f) {
    try {
      f();
    } catch (const BSplineException &e) {
      if (e.getErrorCode() == ErrorCode::DIFFERING_GRIDS) refused++;
    } catch (const std::exception &) {
    }
  };
  must([&] { auto r = *op * s2; (void)r; });
  must([&] { const T v = LinearForm{*op}(s2); (void)v; });
  must([&] { const T v = BilinearForm{*op}(s2, s2); (void)v; });
  if (refused != 3)
    c.violation("C08", "computed-across-grids/persistent-operator",
                "a long-lived SplineOperator whose previous operand lived on a "
                "destroyed equal grid accepted a different grid of the same "
                "size: " + gridStr(pts) + " vs " + gridStr(other) + " operand window " +
                    winStr(w));
  else
    c.count("persistent-operator:refused");
  c.count("calls", 6);
}

template <typename T>
void runCase(Ctx &c) {
  Rng g = c.rng();
  const uint64_t k = c.caseId;
  if (k % 16 == 15) {
    generatorCase<T>(c, g, (int)(k / 16));
    return;
  }
  if (k % 16 == 14) {
    persistentOperatorCase<T>(c, g);
    return;
  }
  const int diff = (int)(k % D_COUNT);
  const int entry = (int)((k / D_COUNT) % E_COUNT);
  const size_t oa = (k / (D_COUNT * E_COUNT)) % (MAXO + 1);
  const size_t ob = (k / (D_COUNT * E_COUNT * (MAXO + 1))) % (MAXO + 1);
  dispatchOrder<MAXO>(oa, [&](auto OA) {
    dispatchOrder<MAXO>(ob, [&](auto OB) {
      gridCase<T, OA.value, OB.value>(c, g, diff, entry);
    });
  });
}

}  // namespace

int main(int argc, char **argv) {
  return driverMain(argc, argv, "grids", ST<VT>::name(), runCase<VT>);
}
