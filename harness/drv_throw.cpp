// C14 / C10 with a scalar type whose own operations can fail: every arithmetic
// operation, copy construction and copy assignment of the scalar `ts::S`
// (a thin wrapper around double) counts down while armed and throws
// ts::Fault at the k-th one. For k = 1, 2, ... each in-place operation or
// assignment is retried until it completes; after every failed attempt the
// target and all operands must be bit-identical to their state before the
// call (C14: "an in-place operation that throws leaves its target unchanged")
// and every object valid (C10). For *= and /= only validity is judged: an
// in-place scaling cannot offer more than the basic guarantee when the
// scalar's multiplication itself throws. Non-mutating operations (sum,
// product, operators, forms, evaluation, linearCombination) are interrupted
// the same way; nothing may change. A completed call is compared with the
// same operation on plain double splines built from the same data.
#include <stdexcept>

#include "lib.h"

namespace ts {
struct Fault : std::runtime_error {
  Fault() : std::runtime_error("ts::Fault: scalar operation failed") {}
};
inline long countdown = 0;
inline bool armed = false;
inline long seen = 0;
inline void tick() {
  if (armed) {
    seen++;
    if (--countdown == 0) {
      armed = false;
      throw Fault();
    }
  }
}
class S final {
  double v;

 public:
  S() : v(0) {}
  template <typename I, typename = std::enable_if_t<std::is_integral_v<I>>>
  explicit S(I i) : v((double)i) {
    tick();
  }
  template <typename F, typename = std::enable_if_t<std::is_floating_point_v<F>>,
            typename = void>
  explicit S(F) = delete;
  S(const S &o) : v(o.v) { tick(); }
  S &operator=(const S &o) {
    tick();
    v = o.v;
    return *this;
  }
  friend S operator+(const S &a, const S &b) { tick(); return raw(a.v + b.v); }
  friend S operator-(const S &a, const S &b) { tick(); return raw(a.v - b.v); }
  friend S operator*(const S &a, const S &b) { tick(); return raw(a.v * b.v); }
  friend S operator/(const S &a, const S &b) { tick(); return raw(a.v / b.v); }
  S operator-() const { tick(); return raw(-v); }
  S &operator+=(const S &o) { tick(); v += o.v; return *this; }
  S &operator-=(const S &o) { tick(); v -= o.v; return *this; }
  S &operator*=(const S &o) { tick(); v *= o.v; return *this; }
  S &operator/=(const S &o) { tick(); v /= o.v; return *this; }
  friend bool operator==(const S &a, const S &b) { return a.v == b.v; }
  friend bool operator!=(const S &a, const S &b) { return a.v != b.v; }
  friend bool operator<(const S &a, const S &b) { return a.v < b.v; }
  friend bool operator>(const S &a, const S &b) { return a.v > b.v; }
  friend bool operator<=(const S &a, const S &b) { return a.v <= b.v; }
  friend bool operator>=(const S &a, const S &b) { return a.v >= b.v; }
  // harness-only access (the library cannot know these names)
  static S raw(double d) {
    S s;
    s.v = d;
    return s;
  }
  friend double peek(const S &s) { return s.v; }
};
}  // namespace ts

using namespace vf;
using bspline::Spline;
using bspline::exceptions::BSplineException;
using bspline::support::Grid;
using bspline::support::Support;
using ts::S;

namespace {

constexpr size_t MAXT = 3;

struct Shot {  // observable state of one spline
  const void *grid = nullptr;
  size_t start = 0, end = 0, ncoef = 0;
  std::vector<uint64_t> bits;
  bool operator==(const Shot &o) const {
    return grid == o.grid && start == o.start && end == o.end && ncoef == o.ncoef &&
           bits == o.bits;
  }
};
template <size_t o>
Shot shot(const Spline<S, o> &s) {
  Shot r;
  r.grid = s.getSupport().getGrid().getData().get();
  r.start = s.getSupport().getStartIndex();
  r.end = s.getSupport().getEndIndex();
  r.ncoef = s.getCoefficients().size();
  for (const auto &cs : s.getCoefficients())
    for (const auto &c : cs) {
      const double d = peek(c);
      uint64_t u;
      memcpy(&u, &d, 8);
      r.bits.push_back(u);
    }
  return r;
}
template <size_t o>
std::string valid(const Spline<S, o> &s) {
  const auto &sup = s.getSupport();
  if (s.getCoefficients().size() != sup.numberOfIntervals())
    return std::to_string(s.getCoefficients().size()) + " coefficient arrays for " +
           std::to_string(sup.numberOfIntervals()) + " intervals";
  if (!(sup.getStartIndex() == 0 && sup.getEndIndex() == 0) &&
      !(sup.getStartIndex() < sup.getEndIndex() && sup.getEndIndex() <= sup.getGrid().size()))
    return "window outside the grid";
  return "";
}
template <size_t o>
Spline<S, o> lift(const Grid<S> &g, const Spline<double, o> &d) {
  std::vector<std::array<S, o + 1>> cs(d.getCoefficients().size());
  for (size_t j = 0; j < cs.size(); j++)
    for (size_t k = 0; k <= o; k++) cs[j][k] = S::raw(d.getCoefficients()[j][k]);
  return Spline<S, o>(Support<S>(g, d.getSupport().getStartIndex(),
                                 d.getSupport().getEndIndex()),
                      std::move(cs));
}
inline bool close(double x, double y) {
  if (x == y) return true;
  return std::fabs(x - y) <= 1e-11 * (std::fabs(x) + std::fabs(y)) + 1e-300;
}
template <size_t o>
std::string sameAs(const Spline<S, o> &s, const Spline<double, o> &d) {
  // same function: compare on the union of the windows, piece by piece
  const size_t n = d.getSupport().getGrid().size();
  for (size_t k = 0; k + 1 < n; k++) {
    const auto is = s.getSupport().intervalIndexFromAbsolute(k);
    const auto id = d.getSupport().intervalIndexFromAbsolute(k);
    for (size_t j = 0; j <= o; j++) {
      const double a = is ? peek(s.getCoefficients()[*is][j]) : 0.0;
      const double b = id ? d.getCoefficients()[*id][j] : 0.0;
      if (!close(a, b))
        return "interval " + std::to_string(k) + " coefficient " + std::to_string(j) +
               ": " + std::to_string(a) + " vs " + std::to_string(b) + " (double run)";
    }
  }
  return "";
}

template <size_t oa, size_t ob>
void throwCase(Ctx &c, Rng &g) {
  using namespace bspline::operators;
  using namespace bspline::integration;
  static const char *names[] = {"add-assign", "sub-assign", "copy-assign", "cross-assign",
                                "assign-sum", "mul-assign", "div-assign", "add", "mul",
                                "operator", "forms", "evaluate", "linear-combination",
                                "assign-operator-result"};
  const int kind = (int)((c.caseId / 16) % 14);
  const std::vector<R> pts = genGrid(g, true, PLACEMENT_MIN_POINTS, 10);
  const size_t n = pts.size();
  const Grid<double> gd = mkGrid<double>(pts);
  std::vector<S> sp;
  for (const auto &p : pts) sp.push_back(S::raw(mk<double>(p)));
  const Grid<S> gs(sp), twin(sp);
  const int pl = (int)g.below(P_COUNT);
  const auto pr = genPlacement(g, n, pl);
  const Win wa = pr.first, wb = pr.second;
  const Spline<double, oa> da = mkSpline<double, oa>(gd, wa.start, wa.end,
                                                     genCoefM(g, true, wa.nint(), oa));
  const Spline<double, ob> db = mkSpline<double, ob>(gd, wb.start, wb.end,
                                                     genCoefM(g, true, wb.nint(), ob));
  Spline<S, oa> t = lift(gs, da);
  const Spline<S, ob> b = lift(g.chance(1, 3) ? twin : gs, db);
  const double cd = mk<double>(genScalar(g, true));
  const S cs = S::raw(cd);
  const std::string ctx = std::string(names[kind]) + " orders (" + std::to_string(oa) + "," +
                          std::to_string(ob) + ") placement " + placementName(pl) +
                          " grid " + gridStr(pts) + " t=" + winStr(wa) + " b=" + winStr(wb);
  c.count(std::string("op:") + names[kind]);
  c.count(std::string("place:") + placementName(pl));
  c.count("orders:" + std::to_string(oa) + "," + std::to_string(ob));
  const bool judgeTarget = kind != 5 && kind != 6;
  bool applicable = true;
  for (long k = 1; k <= 4000; k++) {
    const Shot t0 = shot(t), b0 = shot(b);
    bool threw = false;
    std::string verdict;
    ts::countdown = k;
    ts::seen = 0;
    ts::armed = true;
    try {
      switch (kind) {
        case 0:
          if constexpr (ob <= oa) {
            t += b;
            ts::armed = false;
            Spline<double, oa> e = da;
            e += db;
            verdict = sameAs(t, e);
          } else applicable = false;
          break;
        case 1:
          if constexpr (ob <= oa) {
            t -= b;
            ts::armed = false;
            Spline<double, oa> e = da;
            e -= db;
            verdict = sameAs(t, e);
          } else applicable = false;
          break;
        case 2:
          if constexpr (oa == ob) {
            t = b;
            ts::armed = false;
            verdict = sameAs(t, db);
          } else applicable = false;
          break;
        case 3:
          if constexpr (ob < oa) {
            t = b;
            ts::armed = false;
            Spline<double, oa> e = da;
            e = db;
            verdict = sameAs(t, e);
          } else applicable = false;
          break;
        case 4:
          if constexpr (ob <= oa) {
            t = t + b;
            ts::armed = false;
            Spline<double, oa> e = da + db;
            verdict = sameAs(t, e);
          } else applicable = false;
          break;
        case 5: {
          t *= cs;
          ts::armed = false;
          Spline<double, oa> e = da;
          e *= cd;
          verdict = sameAs(t, e);
          break;
        }
        case 6: {
          t /= cs;
          ts::armed = false;
          Spline<double, oa> e = da;
          e /= cd;
          verdict = sameAs(t, e);
          break;
        }
        case 7: {
          auto r = t + b;
          ts::armed = false;
          verdict = sameAs(r, da + db);
          break;
        }
        case 8: {
          auto r = t * b;
          ts::armed = false;
          verdict = sameAs(r, da * db);
          break;
        }
        case 9: {
          auto r = (X<1>{} * Dx<1>{} - cs) * t;
          ts::armed = false;
          verdict = sameAs(r, (X<1>{} * Dx<1>{} - cd) * da);
          break;
        }
        case 10: {
          const S v1 = ScalarProduct{}(t, b);
          const S v2 = LinearForm{X<1>{}}(t);
          ts::armed = false;
          if (!close(peek(v1), ScalarProduct{}(da, db)) ||
              !close(peek(v2), LinearForm{X<1>{}}(da)))
            verdict = "form value differs from the double run";
          break;
        }
        case 11: {
          const double x = mk<double>(pts[g.below(n)]) + 0.03125;
          const S v = t(S::raw(x));
          ts::armed = false;
          if (!close(peek(v), da(x))) verdict = "evaluation differs from the double run";
          break;
        }
        case 12:
          if constexpr (oa == ob) {
            std::vector<Spline<S, oa>> ms{t, b};
            std::vector<S> cf{cs, S::raw(-1.0)};
            auto r = bspline::linearCombination(cf, ms);
            ts::armed = false;
            std::vector<Spline<double, oa>> md{da, db};
            std::vector<double> cfd{cd, -1.0};
            verdict = sameAs(r, bspline::linearCombination(cfd, md));
          } else applicable = false;
          break;
        default:
          if constexpr (oa >= 1) {
            // assignment from an operator result of lower order
            t = Dx<1>{} * t;
            ts::armed = false;
            Spline<double, oa> e = da;
            e = Dx<1>{} * da;
            verdict = sameAs(t, e);
          } else applicable = false;
      }
    } catch (const ts::Fault &) {
      threw = true;
    } catch (const BSplineException &e) {
      ts::armed = false;
      c.violation("C14", std::string("unexpected-throw/scalar-fault-") + names[kind],
                  ctx + " threw " + e.what());
      return;
    } catch (const std::exception &e) {
      ts::armed = false;
      c.violation("C14", std::string("foreign-exception/scalar-fault-") + names[kind],
                  ctx + " threw " + e.what());
      return;
    }
    ts::armed = false;
    if (!applicable) return;
    // every object is valid after the call, however it ended (C10)
    const std::string inv = valid(t);
    if (!inv.empty())
      c.violation("C10", std::string("coefficient-count/scalar-fault-") + names[kind],
                  ctx + " after " + (threw ? "the failed attempt " : "completion, attempt ") +
                      std::to_string(k) + ": " + inv);
    if (!(shot(b) == b0))
      c.violation("C14", std::string("operand-changed/scalar-fault-") + names[kind],
                  ctx + ": the right operand changed (attempt " + std::to_string(k) + ")");
    if (threw) {
      c.count("scalar-fault:injected");
      c.count(std::string("scalar-fault:") + names[kind]);
      if (judgeTarget || kind >= 7) {
        if (!(shot(t) == t0))
          c.violation("C14", std::string("target-changed-by-failed-call/scalar-fault-") +
                                 names[kind],
                      ctx + ": the scalar operation number " + std::to_string(k) +
                          " of the call threw and the target is no longer what it was");
        c.count("scalar-fault:target-compared");
      } else {
        c.count("scalar-fault:basic-guarantee-only");
        // *= and /= may legitimately leave a partially scaled (valid) target
        // behind; start the next attempt from the original value again so
        // that the completed call can be compared with the double run
        t = lift(gs, da);
      }
      continue;
    }
    // completed
    c.count("scalar-fault:completed");
    if (kind >= 7 && kind != 13 && !(shot(t) == t0))
      c.violation("C14", std::string("operand-changed/") + names[kind],
                  ctx + ": a non-mutating operation changed its left operand");
    if (!verdict.empty())
      c.violation("C03", std::string("scalar-fault-result/") + names[kind], ctx + ": " + verdict);
    if (k > 1) {
      Hasher h;
      h.s(ctx);
      h.u((uint64_t)k);
      c.nontrivial(h.h);
      if (c.caseId % 97 == 0)
        c.sample(ctx + " -> completed after " + std::to_string(k - 1) +
                     " injected scalar faults, target unchanged after each",
                 3);
    }
    return;
  }
  c.violation("C14", std::string("never-completes/scalar-fault-") + names[kind], ctx);
}

void runCase(Ctx &c) {
  Rng g = c.rng();
  const size_t oa = c.caseId % (MAXT + 1), ob = (c.caseId / (MAXT + 1)) % (MAXT + 1);
  dispatchOrder<MAXT>(oa, [&](auto OA) {
    dispatchOrder<MAXT>(ob, [&](auto OB) { throwCase<OA.value, OB.value>(c, g); });
  });
}

}  // namespace

int main(int argc, char **argv) { return driverMain(argc, argv, "throw", "ts", runCase); }
