// C18: concurrent read-only use is race-free and deterministic.
// Oracle 1: ThreadSanitizer (tsan flavour; reports are counted by the runner).
// Oracle 2: determinism - every logical thread executes a script that depends
// only on (seed, round, logical id) and folds every result's bit pattern into
// a digest; the same script is executed again sequentially AFTER the
// concurrent phase (so that first-use initialisation happens under
// contention) and the digests must be equal.
#ifndef VT_Q
#define BSPLINE_INTERPOLATION_USE_EIGEN
#endif
#include <bspline/integration/numerical.h>
#include <bspline/interpolation/interpolation.h>
#include <pthread.h>
#include <sched.h>

#include <atomic>
#include <chrono>
#include <thread>

#include "lib.h"
#include "scalar.h"

#ifndef MAXO
#define MAXO 4
#endif

using namespace vf;
using bspline::Spline;
using bspline::exceptions::BSplineException;
using bspline::support::Grid;
using bspline::support::Support;

namespace {

struct Digest {
  uint64_t h = 0xcbf29ce484222325ull;
  void bytes(const void *p, size_t n) {
    const unsigned char *b = (const unsigned char *)p;
    for (size_t i = 0; i < n; i++) h = (h ^ b[i]) * 1099511628211ull;
  }
  void u(uint64_t x) { bytes(&x, sizeof x); }
  template <typename T>
  void val(const T &v) {
    if constexpr (ST<T>::exact) {
      const std::string s = model::rstr(vq::peek(v));
      bytes(s.data(), s.size());
    } else if constexpr (std::is_same_v<T, long double>) {
      bytes(&v, 10);
    } else
      bytes(&v, sizeof v);
  }
  template <typename T, size_t o>
  void spline(const Spline<T, o> &s) {
    u(s.getSupport().getStartIndex());
    u(s.getSupport().getEndIndex());
    for (const auto &cs : s.getCoefficients())
      for (const auto &c : cs) val(c);
  }
};

enum Act {
  A_EVAL,
  A_COPY,
  A_ADD,
  A_MUL,
  A_APPLY_X,
  A_APPLY_D,
  A_APPLY_SHARED_OP,
  A_BILINEAR,
  A_LINEAR,
  A_GENERATE,
  A_ISZERO,
  A_LINCOMB,
  A_GETDATA,
  A_COMPARE,
  A_OWN_GRID,
  A_SUPPORT,
  A_QUADRATURE,
  A_INTERPOLATE,
  A_REFUSED_CALLS,
  A_RARE_INSTANTIATIONS,
  A_COUNT
};
const char *actName(int a) {
  static const char *n[] = {"evaluate",  "copy-destroy", "add",
                            "multiply",  "apply-X",      "apply-Dx",
                            "apply-shared-operator",     "bilinear-form",
                            "linear-form", "generateBSplines", "isZero",
                            "linearCombination", "getData", "compare",
                            "own-grid-instance", "support-algebra",
                            "quadrature", "interpolate", "refused-calls",
                            "rare-instantiations"};
  return n[a];
}

struct Event {
  int act;
  int64_t t0, t1;
};

template <typename T>
struct Shared {
  std::vector<R> pts;
  std::vector<T> knots;
  Grid<T> grid, twin;
  bspline::BSplineGenerator<T> gen;
  // objects that nobody touches before the concurrent phase: whatever they
  // initialise on first use is initialised under contention
  bspline::BSplineGenerator<T> genFresh1, genFresh2;
  Spline<T, 1> freshGeneral;
  std::vector<Spline<T, 0>> b0;
  std::vector<Spline<T, 1>> b1;
  std::vector<Spline<T, 2>> b2;
  std::vector<Spline<T, 3>> b3;
  Spline<T, 2> onTwin;   // equal points, different grid object
  Spline<T, 1> general;  // general coefficients on a sub-window
  Spline<T, 0> empty;
  Grid<T> cousinGrid;      // logically different grid
  Spline<T, 2> onCousin;   // operands of calls that must be refused
  std::vector<T> ordinates;
  using OpT = decltype(bspline::operators::X<2>{} +
                       bspline::operators::SplineOperator<T, 1>{
                           std::declval<Spline<T, 1>>()} *
                           bspline::operators::Dx<1>{});
  OpT sharedOp;
  bspline::integration::BilinearForm<bspline::operators::Dx<1>, OpT> sharedForm;
  bspline::integration::LinearForm<OpT> sharedLinear;

  static std::vector<T> mkKnots(const std::vector<R> &pts) {
    std::vector<T> k;
    for (size_t i = 0; i < pts.size(); i++)
      for (size_t r = 0, m = (i == 0 || i + 1 == pts.size()) ? 3 : 1 + (i % 3 == 0); r < m; r++)
        k.push_back(mk<T>(pts[i]));
    return k;
  }
  static Grid<T> mkCousin(std::vector<R> p) {
    p.back() += 1;
    return Grid<T>(mkVec<T>(p));
  }
  static std::vector<T> mkOrd(size_t n) {
    std::vector<T> y;
    for (size_t i = 0; i < n; i++) y.push_back(mk<T>((long)((i * 7) % 5) - 2, 2));
    return y;
  }
  static OpT mkOp(const Spline<T, 1> &v) {
    using namespace bspline::operators;
    return X<2>{} + SplineOperator<T, 1>{v} * Dx<1>{};
  }
  // one round in four shares a large grid (65..100 points)
  static std::vector<R> mkPts(Rng &g) {
    return g.chance(1, 4) ? genGrid(g, true, 65, 100) : genGrid(g, true, 7, 10);
  }
  Shared(Rng &g)
      : pts(mkPts(g)), knots(mkKnots(pts)),
        grid(mkVec<T>(pts)), twin(mkVec<T>(pts)), gen(knots, grid),
        genFresh1(knots), genFresh2(knots, twin),
        freshGeneral(mkSpline<T, 1>(twin, 1, pts.size() - 1,
                                    genCoefM(g, true, pts.size() - 3, 1))),
        b0(gen.template generateBSplines<0>()),
        b1(gen.template generateBSplines<1>()),
        b2(gen.template generateBSplines<2>()),
        b3(gen.template generateBSplines<3>()),
        onTwin(mkSpline<T, 2>(twin, 1, pts.size() - 1,
                              genCoefM(g, true, pts.size() - 3, 2))),
        general(mkSpline<T, 1>(grid, 2, pts.size(),
                               genCoefM(g, true, pts.size() - 3, 1))),
        empty(grid), cousinGrid(mkCousin(pts)),
        onCousin(mkSpline<T, 2>(cousinGrid, 0, pts.size(),
                                genCoefM(g, true, pts.size() - 1, 2))),
        ordinates(mkOrd(pts.size())), sharedOp(mkOp(general)),
        sharedForm(bspline::operators::Dx<1>{}, mkOp(general)),
        sharedLinear(mkOp(general)) {}
};

int64_t nowNs() {
  return std::chrono::duration_cast<std::chrono::nanoseconds>(
             std::chrono::steady_clock::now().time_since_epoch())
      .count();
}

// One script: a deterministic function of (seed) over the shared objects.
template <typename T>
uint64_t runScript(const Shared<T> &S, uint64_t seed, size_t len, bool yields,
                   std::vector<Event> *events, std::vector<uint64_t> *perAct) {
  using namespace bspline::operators;
  using namespace bspline::integration;
  Rng g(seed);
  Rng sched(seed ^ 0x5bd1e995u);
  uint64_t total = 0x9e3779b97f4a7c15ull;
  for (size_t step = 0; step < len; step++) {
    Digest d;  // of this action alone, so that a mismatch can be attributed
    const int act = (int)g.below(A_COUNT);
    const size_t i = g.below(S.b2.size()), j = g.below(S.b2.size());
    const size_t i3 = g.below(S.b3.size()), i1 = g.below(S.b1.size());
    const R xr = S.pts[g.below(S.pts.size())] + R((long)g.range(0, 3)) / 32;
    const T x = mk<T>(xr);
    const int64_t t0 = events ? nowNs() : 0;
    switch (act) {
      case A_EVAL:
        d.val(S.b2[i](x));
        d.val(S.b3[i3](x));
        d.val(S.general(x));
        d.val(S.onTwin(x));
        break;
      case A_COPY: {
        Spline<T, 2> cp(S.b2[i]);
        Support<T> sp(S.b3[i3].getSupport());
        Spline<T, 2> mv(std::move(cp));
        Grid<T> gcopy(S.grid);
        d.spline(mv);
        d.u(sp.size() + gcopy.size());
        break;
      }
      case A_ADD:
        d.spline(S.b2[i] + S.b1[i1]);
        d.spline(S.b2[i] - S.onTwin);  // operands on different grid objects
        break;
      case A_MUL:
        d.spline(S.b2[i] * S.b2[j]);
        d.spline(S.onTwin * S.b1[i1]);
        break;
      case A_APPLY_X:
        switch (g.below(6)) {
          case 0: d.spline(X<1>{} * S.b2[i]); break;
          case 1: d.spline(X<2>{} * S.b2[i]); break;
          case 2: d.spline(X<3>{} * S.b1[i1]); break;
          case 3: d.spline(X<4>{} * S.b1[i1]); break;
          case 4: d.spline(X<5>{} * S.b0[g.below(S.b0.size())]); break;
          default: d.spline(X<7>{} * S.b0[g.below(S.b0.size())]);
        }
        break;
      case A_APPLY_D:
        switch (g.below(3)) {
          case 0: d.spline(Dx<1>{} * S.b3[i3]); break;
          case 1: d.spline(Dx<2>{} * S.b3[i3]); break;
          default: d.spline(Dx<3>{} * S.b3[i3]);
        }
        break;
      case A_APPLY_SHARED_OP:
        d.spline(S.sharedOp * S.b2[i]);
        d.spline((SplineOperator{S.b1[i1]} * X<1>{}) * S.onTwin);
        break;
      case A_BILINEAR:
        d.val(S.sharedForm(S.b2[i], S.b2[j]));
        d.val(ScalarProduct{}(S.b3[i3], S.onTwin));
        d.val(BilinearForm{X<2>{}, Dx<1>{}}(S.b2[i], S.b3[i3]));
        break;
      case A_LINEAR:
        d.val(S.sharedLinear(S.b2[i]));
        d.val(LinearForm{}(S.b3[i3]));
        d.val(LinearForm{X<3>{}}(S.general));
        break;
      case A_GENERATE: {
        const size_t which = g.below(3);
        const bspline::BSplineGenerator<T> &G =
            which == 0 ? S.gen : (which == 1 ? S.genFresh1 : S.genFresh2);
        switch (g.below(3)) {
          case 0: for (const auto &s : G.template generateBSplines<2>()) d.spline(s); break;
          case 1: for (const auto &s : G.template generateBSplines<3>()) d.spline(s); break;
          default: for (const auto &s : G.template generateBSplines<4>()) d.spline(s);
        }
        d.val(S.freshGeneral(x));
        d.u(S.freshGeneral.isZero());
        d.val(ScalarProduct{}(S.freshGeneral, S.freshGeneral));
        break;
      }
      case A_ISZERO:
        d.u(S.b2[i].isZero());
        d.u(S.empty.isZero());
        d.u((S.b2[i] * S.b2[j]).isZero());            // Spline<T,4>::isZero
        d.u((X<3>{} * S.b3[i3]).isZero());            // Spline<T,6>::isZero
        d.u((S.b3[i3] * S.b3[i3] * S.b1[i1]).isZero());  // Spline<T,7>::isZero
        d.u(S.b2[i].checkOverlap(S.b3[i3]));
        break;
      case A_LINCOMB: {
        std::vector<T> cs;
        for (size_t k = 0; k < S.b2.size(); k++)
          cs.push_back(mk<T>(R((long)g.range(-8, 8)) / 4));
        d.spline(bspline::linearCombination(cs, S.b2));
        break;
      }
      case A_GETDATA: {
        auto p = S.b2[i].getSupport().getGrid().getData();
        auto q = S.grid.getData();
        d.u(p->size() + (p == q));
        d.val((*p)[g.below(p->size())]);
        d.val(S.grid.front());
        d.u(S.grid.findElement(S.knots[g.below(S.knots.size())]));
        break;
      }
      case A_COMPARE:
        d.u(S.grid == S.twin);
        d.u(S.onTwin.getSupport() == S.b2[i].getSupport());
        d.u(S.b2[i] == S.b2[j]);
        d.u(S.b2[i].getSupport().hasSameGrid(S.onTwin.getSupport()));
        d.u(S.onTwin != S.b2[j]);
        break;
      case A_OWN_GRID: {
        // a logically equal grid in a thread-private instance, combined with
        // the shared const objects as the LEFT operands
        bspline::BSplineGenerator<T> own(S.knots);
        const auto mine = own.template generateBSplines<2>();
        d.spline(S.b2[i] + mine[j % mine.size()]);
        d.spline(S.b2[i] * mine[j % mine.size()]);
        d.val(ScalarProduct{}(S.b2[i], mine[i % mine.size()]));
        d.u(S.b2[i] == mine[i % mine.size()]);
        d.u(S.grid == own.getGrid());
        break;
      }
      case A_SUPPORT: {
        const auto &sa = S.b3[i3].getSupport(), &sb = S.onTwin.getSupport();
        const auto un = sa.calcUnion(sb), in = sa.calcIntersection(sb);
        d.u(un.getStartIndex() * 100 + un.getEndIndex());
        d.u(in.getStartIndex() * 100 + in.getEndIndex());
        d.u(sa.intervalIndexFromAbsolute(i).value_or(99));
        break;
      }
      case A_INTERPOLATE: {
        // interpolation over the shared (const) abscissae and ordinates
        const Support<T> xs = Support<T>::createWholeGrid(S.grid);
#ifndef VT_Q
        switch (g.below(3)) {
          case 0: d.spline(bspline::interpolation::interpolateUsingEigen<T, 1>(xs, S.ordinates)); break;
          case 1: d.spline(bspline::interpolation::interpolateUsingEigen<T, 3>(xs, S.ordinates)); break;
          default: {
            std::array<bspline::interpolation::Boundary<T>, 1> bc{
                bspline::interpolation::Boundary<T>{bspline::interpolation::Node::LAST, 2, mk<T>(R(1))}};
            d.spline(bspline::interpolation::interpolateUsingEigen<T, 2>(xs, S.ordinates, bc));
          }
        }
#else
        d.u(xs.size() + S.ordinates.size());
#endif
        break;
      }
      case A_REFUSED_CALLS: {
        // exception paths, concurrently: the outcome is part of the digest
        auto code = [&](auto &&f) -> uint64_t {
          try {
            f();
          } catch (const BSplineException &e) {
            return 100 + (uint64_t)e.getErrorCode() + std::string(e.what()).size();
          } catch (const std::exception &) {
            return 7;
          }
          return 1;
        };
        d.u(code([&] { auto r = S.b2[i] + S.onCousin; (void)r; }));
        d.u(code([&] { auto r = S.onCousin * S.b1[i1]; (void)r; }));
        d.u(code([&] { (void)ScalarProduct{}(S.b2[i], S.onCousin); }));
        d.u(code([&] { auto r = SplineOperator{S.onCousin} * S.b2[i]; (void)r; }));
        d.u(code([&] { (void)S.grid.at(S.grid.size() + i); }));
        d.u(code([&] { (void)S.b2[i].getSupport().at(~size_t(0) - i); }));
        d.u(code([&] { (void)S.empty.front(); }));
        d.u(code([&] { (void)S.grid.findElement(x + mk<T>(R(1) / 1024)); }));
        d.u(code([&] { Grid<T> bad(std::vector<T>{x, x}); (void)bad; }));
        d.u(code([&] {
          std::vector<T> cs(2, x);
          auto r = bspline::linearCombination(cs, S.b0);
          (void)r;
        }));
        d.u(code([&] {
          bspline::BSplineGenerator<T> bad(S.knots, S.cousinGrid);
          (void)bad;
        }));
        break;
      }
      case A_RARE_INSTANTIATIONS:
        // template arguments no other action uses
        switch (g.below(8)) {
          case 0: d.spline(X<6>{} * S.b0[g.below(S.b0.size())]); break;
          case 1: d.spline(X<8>{} * S.b0[g.below(S.b0.size())]); break;
          case 2: d.spline(Dx<4>{} * (S.b3[i3] * S.b3[i3])); break;
          case 3: d.spline(Dx<6>{} * (S.b3[i3] * S.b3[i3])); break;
          case 4: for (const auto &s : S.gen.template generateBSplines<5>()) d.spline(s); break;
          case 5: for (const auto &s : S.gen.template generateBSplines<1>()) d.spline(s); break;
          case 6: d.val(LinearForm{X<5>{} * Dx<2>{}}(S.b3[i3])); break;
          default: {
            Spline<T, 3> hi(S.grid);
            hi = S.b1[i1];  // cross-order assignment
            d.spline(hi);
            d.val(BilinearForm{Dx<2>{}, X<4>{} - 2}(S.b3[i3], hi));
          }
        }
        break;
      default:
#ifndef VT_Q
        switch (g.below(3)) {
          case 0: d.val(integrate<2>([](const T &t) { return t; }, S.b1[i1], S.b2[i])); break;
          case 1: d.val(integrate<5>([](const T &t) { return t * t; }, S.b2[i], S.b2[j])); break;
          default: d.val(integrate<7>([](const T &) { return (T)1; }, S.b3[i3], S.onTwin));
        }
#else
        d.val(S.general(x));
#endif
    }
    if (events) events->push_back(Event{act, t0, nowNs()});
    total = mix(total, d.h);
    if (perAct) (*perAct)[(size_t)act] ^= mix(step, d.h);
    if (yields) {
      const uint64_t r = sched.below(16);
      if (r < 4)
        sched_yield();
      else if (r == 4) {
        struct timespec ts {0, (long)(20000 + sched.below(80000))};
        nanosleep(&ts, nullptr);
      }
    }
  }
  return total;
}

struct Barrier {
  std::atomic<int> waiting{0};
  int n;
  explicit Barrier(int nn) : n(nn) {}
  void arrive() {
    waiting.fetch_add(1, std::memory_order_acq_rel);
    while (waiting.load(std::memory_order_acquire) < n) sched_yield();
  }
};

// Forced preemption: restrict this process to the first `pin` CPUs of the set
// it is allowed to run on (failure is ignored: it only weakens the stress).
void pinTo(long pin) {
  static bool done = false;
  if (done || pin <= 0) return;
  done = true;
  cpu_set_t cur, want;
  CPU_ZERO(&cur);
  if (sched_getaffinity(0, sizeof cur, &cur) != 0) return;
  CPU_ZERO(&want);
  long n = 0;
  for (int i = 0; i < CPU_SETSIZE && n < pin; i++)
    if (CPU_ISSET(i, &cur)) {
      CPU_SET(i, &want);
      n++;
    }
  if (n > 0) (void)sched_setaffinity(0, sizeof want, &want);
}

template <typename T>
void runCase(Ctx &c) {
  pinTo(c.param("pin", 0));
  Rng g = c.rng();
  const Shared<T> S(g);
  static const int counts[] = {2, 3, 4, 8, 12, 16, 24, 32};
  const int nthreads = counts[c.caseId % 8];
  const size_t len = (size_t)c.param("len", 24);
  std::vector<uint64_t> digest((size_t)nthreads), reference((size_t)nthreads);
  std::vector<std::vector<uint64_t>> per((size_t)nthreads,
                                         std::vector<uint64_t>(A_COUNT, 0)),
      perRef = per;
  std::vector<std::vector<Event>> events((size_t)nthreads);
  std::vector<std::string> errors((size_t)nthreads);
  Barrier bar(nthreads);
  const uint64_t base = mix(c.seed, c.caseId);
  {
    std::vector<std::thread> ts;
    for (int t = 0; t < nthreads; t++)
      ts.emplace_back([&, t] {
        bar.arrive();
        try {
          digest[(size_t)t] = runScript(S, mix(base, (uint64_t)t), len, true,
                                        &events[(size_t)t], &per[(size_t)t]);
        } catch (const std::exception &e) {
          errors[(size_t)t] = e.what();
        }
      });
    for (auto &t : ts) t.join();
  }
  // sequential reference, after the concurrent phase
  for (int t = 0; t < nthreads; t++)
    reference[(size_t)t] = runScript(S, mix(base, (uint64_t)t), len, false,
                                     nullptr, &perRef[(size_t)t]);
  for (int t = 0; t < nthreads; t++) {
    if (!errors[(size_t)t].empty()) {
      c.violation("C18", "exception-in-thread",
                  "logical thread " + std::to_string(t) + " threw " +
                      errors[(size_t)t]);
      continue;
    }
    if (digest[(size_t)t] != reference[(size_t)t]) {
      std::string kinds;
      for (int a = 0; a < A_COUNT; a++)
        if (per[(size_t)t][(size_t)a] != perRef[(size_t)t][(size_t)a])
          kinds += std::string(kinds.empty() ? "" : ",") + actName(a);
      c.violation("C18", "nondeterministic/" + kinds,
                  "logical thread " + std::to_string(t) + " of " +
                      std::to_string(nthreads) +
                      " obtained results that differ from the sequential run "
                      "of the same script (actions: " + kinds + ") on grid " +
                      gridStr(S.pts));
    }
  }
  // evidence of stress: which action kinds overlapped in time, concurrency
  std::vector<std::pair<int64_t, int>> edges;
  size_t nev = 0;
  for (const auto &ev : events)
    for (const auto &e : ev) {
      edges.push_back({e.t0, +1});
      edges.push_back({e.t1, -1});
      nev++;
    }
  std::sort(edges.begin(), edges.end());
  int cur = 0, mx = 0;
  for (const auto &e : edges) {
    cur += e.second;
    mx = std::max(mx, cur);
  }
  c.maxval("max-concurrent-actions", mx);
  for (size_t a = 0; a < events.size(); a++)
    for (size_t b = a + 1; b < events.size(); b++)
      for (const auto &ea : events[a])
        for (const auto &eb : events[b])
          if (ea.t0 < eb.t1 && eb.t0 < ea.t1) {
            const int lo = std::min(ea.act, eb.act), hi = std::max(ea.act, eb.act);
            c.count(std::string("overlap:") + actName(lo) + "|" + actName(hi));
          }
  // arrival-order signature: order in which threads finished their first action
  {
    std::vector<std::pair<int64_t, size_t>> first;
    for (size_t t = 0; t < events.size(); t++)
      if (!events[t].empty()) first.push_back({events[t][0].t1, t});
    std::sort(first.begin(), first.end());
    Hasher h;
    for (const auto &f : first) h.u(f.second);
    h.u(c.caseId);
    c.nontrivial(h.h);
  }
  c.count("rounds");
  c.count(S.pts.size() >= 64 ? "shared-grid:large" : "shared-grid:small");
  c.count("threads", (uint64_t)nthreads);
  c.count("operations", nev);
  c.count("threads:" + std::to_string(nthreads));
  c.sample("round with " + std::to_string(nthreads) + " threads x " +
               std::to_string(len) + " actions over shared const objects on a grid of " +
               std::to_string(S.pts.size()) + " points: all digests equal to the sequential run",
           2);
}

}  // namespace

int main(int argc, char **argv) {
  return driverMain(argc, argv, "threads", ST<VT>::name(), runCase<VT>);
}
