// Pool machine: histories over a pool of splines with a shadow model, deep
// snapshots and invariant walks after every step.
//   C03 arithmetic == pointwise arithmetic of the denoted functions
//   C10 class invariants survive every history (incl. moves, failing calls)
//   C14 value semantics: nothing outside the declared write set changes
//   C15 predicates tell the truth
// (also the main sanitizer workload of C09 and a C16 source for floats)
#include "lib.h"
#include "scalar.h"

#ifndef MAXO
#define MAXO 4
#endif
#ifndef NSLOT
#define NSLOT 3
#endif

using namespace vf;
using bspline::Spline;
using bspline::exceptions::BSplineException;
using bspline::exceptions::ErrorCode;
using bspline::support::Grid;
using bspline::support::Support;

// ---------------------------------------------------------------- failpoint
// Countdown allocation failure: while armed, the k-th call of operator new
// throws std::bad_alloc. Used to observe what a call leaves behind when it
// fails in the middle (built-in scalar types only; not under ASan, whose own
// operator new must stay in place).
#if !defined(VF_HAVE_ASAN) && !defined(VT_Q) && !defined(_GLIBCXX_DEBUG) && \
    !defined(VF_NO_FAILPOINTS)
#define VF_FAILPOINTS 1
namespace fp {
long countdown = 0;
bool armed = false;
long seen = 0;
}  // namespace fp
void *operator new(std::size_t n) {
  if (fp::armed) {
    fp::seen++;
    if (--fp::countdown == 0) {
      fp::armed = false;
      throw std::bad_alloc();
    }
  }
  void *p = std::malloc(n ? n : 1);
  if (!p) throw std::bad_alloc();
  return p;
}
void operator delete(void *p) noexcept { std::free(p); }
void operator delete(void *p, std::size_t) noexcept { std::free(p); }
#endif

namespace {

// a refusal by the library's exception and a foreign exception type are both
// reported, under different keys
#define VF_CATCH(prop, opname, desc)                                  \
  catch (const BSplineException &e) {                                 \
    viol(prop, std::string("unexpected-throw/") + opname,             \
         std::string(desc) + " threw " + e.what());                   \
  }                                                                   \
  catch (const std::exception &e) {                                   \
    viol(prop, std::string("foreign-exception/") + opname,            \
         std::string(desc) + " threw " + e.what());                   \
  }

template <typename T, size_t o>
struct Slot {
  std::optional<Spline<T, o>> s;
  Den shadow;
};

template <typename T, size_t... I>
auto makeSlots(std::index_sequence<I...>) {
  return std::tuple<std::array<Slot<T, I>, NSLOT>...>{};
}

template <typename T>
struct Machine {
  Ctx &c;
  Rng g;
  std::vector<R> gridPts, cousinPts;
  std::optional<Grid<T>> gridA, gridB, gridC;  // A, equal twin B, cousin C
  std::vector<T> masterA, masterB;
  decltype(makeSlots<T>(std::make_index_sequence<MAXO + 1>{})) slots;
  decltype(makeSlots<T>(std::make_index_sequence<MAXO + 1>{})) cousins;
  std::vector<Snap<T>> before;
  std::vector<std::pair<size_t, size_t>> writeSet;  // (order, slot)
  std::string trace;  // rendering of the last steps (witness)
  uint64_t stepNo = 0;
  bool dyadic;
  const char *curStep = "";
  bool failing = false;  // the current step is a call that must be refused
  bool faulting = false;  // the current step had an allocation failure injected

  Machine(Ctx &ctx) : c(ctx), g(ctx.rng()), dyadic(!ST<T>::exact) {}

  template <size_t o>
  Slot<T, o> &slot(size_t i) {
    return std::get<o>(slots)[i];
  }
  template <size_t o>
  Slot<T, o> &cousin() {
    return std::get<o>(cousins)[0];
  }
  size_t n() const { return gridPts.size(); }

  void note(const std::string &s) {
    trace += s;
    trace += "; ";
    if (trace.size() > 1800) trace.erase(0, trace.size() - 1500);
  }
  std::string witness(const std::string &what) {
    return what + " | grid " + gridStr(gridPts) + " | history tail: " + trace;
  }
  void viol(const char *prop, const std::string &key, const std::string &what) {
    c.violation(prop, key, witness(what));
  }

  // ----------------------------------------------------------- invariants
  template <size_t o>
  void walkOne(const Spline<T, o> &s, size_t si) {
    const std::string id = "slot" + std::to_string(o) + "." + std::to_string(si);
    try {
      const Support<T> &sup = s.getSupport();
      const Grid<T> &gr = sup.getGrid();
      const size_t gs = gr.size();
      bool ok = gs >= 2;
      if (ok) {
        size_t cnt = 0;
        for (auto it = gr.begin(); it != gr.end(); ++it) cnt++;
        ok = cnt == gs;
        for (size_t i = 0; ok && i + 1 < gs; i++)
          if (!(gr[i] < gr[i + 1])) ok = false;
        if (ok && !(sameBits(gr.front(), gr[0]) &&
                    sameBits(gr.back(), gr[gs - 1]) &&
                    sameBits(gr.at(gs - 1), gr[gs - 1])))
          ok = false;
      }
      if (!ok) {
        viol("C10", std::string("grid-invariant/") + curStep,
             id + ": grid is not >=2 strictly increasing points");
        return;
      }
      const size_t st = sup.getStartIndex(), en = sup.getEndIndex();
      const bool empty = st == 0 && en == 0;
      if (!(empty || (st < en && en <= gs))) {
        viol("C10", std::string("support-window/") + curStep,
             id + ": window (" + std::to_string(st) + "," + std::to_string(en) +
                 ") on a grid of " + std::to_string(gs));
        return;
      }
      const size_t sz = en - st;
      size_t cnt = 0;
      for (auto it = sup.begin(); it != sup.end(); ++it) cnt++;
      bool consistent = sup.size() == sz && sup.empty() == (sz == 0) &&
                        sup.containsIntervals() == (sz > 1) &&
                        sup.numberOfIntervals() == (sz > 1 ? sz - 1 : 0) &&
                        cnt == sz;
      if (consistent && sz > 0)
        consistent = sameBits(sup.front(), gr[st]) &&
                     sameBits(sup.back(), gr[en - 1]) &&
                     sameBits(sup[0], gr[st]) &&
                     sameBits(sup.at(sz - 1), gr[en - 1]);
      if (!consistent) {
        viol("C10", std::string("support-accessors/") + curStep,
             id + ": size/empty/iteration/front/back disagree with window (" +
                 std::to_string(st) + "," + std::to_string(en) + ")");
        return;
      }
      if (s.getCoefficients().size() != sup.numberOfIntervals()) {
        viol("C10", std::string("coefficient-count/") + curStep,
             id + ": " + std::to_string(s.getCoefficients().size()) +
                 " coefficient arrays for " +
                 std::to_string(sup.numberOfIntervals()) + " intervals");
        return;
      }
      c.count("c10:objects-walked");
    } catch (const BSplineException &e) {
      viol("C10", std::string("accessor-throws/") + curStep,
           id + ": accessor of a live object threw " + e.what());
    }
  }

  template <size_t o = 0>
  void walkAll() {
    for (size_t i = 0; i < NSLOT; i++)
      if (slot<o>(i).s) walkOne(*slot<o>(i).s, i);
    if (cousin<o>().s) walkOne(*cousin<o>().s, 99);
    if constexpr (o < MAXO) walkAll<o + 1>();
  }

  template <size_t o = 0>
  void snapAll(std::vector<Snap<T>> &out) {
    if (o == 0) out.clear();
    for (size_t i = 0; i < NSLOT; i++) out.push_back(snapOf(slot<o>(i).s));
    out.push_back(snapOf(cousin<o>().s));
    if constexpr (o < MAXO) snapAll<o + 1>(out);
  }

  void beginStep(const char *name) {
    curStep = name;
    writeSet.clear();
    snapAll(before);
    failing = false;
    faulting = false;
  }
  void mark() {
    stepNo++;
    c.count(std::string("step:") + curStep);
  }
  void wrote(size_t o, size_t i) { writeSet.push_back({o, i}); }

  void endStep() {
    std::vector<Snap<T>> after;
    snapAll(after);
    for (size_t idx = 0; idx < after.size(); idx++) {
      const size_t o = idx / (NSLOT + 1), i = idx % (NSLOT + 1);
      bool inWS = false;
      for (auto &w : writeSet)
        if (w.first == o && w.second == i) inWS = true;
      if (inWS) continue;
      if (!(before[idx] == after[idx])) {
        viol("C14", std::string(faulting ? "target-changed-by-failed-call/"
                                         : "bystander-changed/") + curStep,
             "object slot" + std::to_string(o) + "." + std::to_string(i) +
                 (faulting ? " changed although the call threw std::bad_alloc"
                           : " changed although the step does not write it"));
        if (failing)
          viol("C08", std::string("argument-changed-by-refused-call/") + curStep,
               "object slot" + std::to_string(o) + "." + std::to_string(i) +
                   " changed although the call threw");
      }
      c.count("c14:bystanders-compared");
    }
    // shared grid vectors never change
    auto sameVec = [&](const Grid<T> &gr, const std::vector<T> &m) {
      if (gr.size() != m.size()) return false;
      for (size_t i = 0; i < m.size(); i++)
        if (!sameBits(gr[i], m[i])) return false;
      return true;
    };
    if (!sameVec(*gridA, masterA) || !sameVec(*gridB, masterB))
      viol("C14", std::string("shared-grid-modified/") + curStep,
           "the vector behind a shared grid changed");
    walkAll();
    evalWritten();
  }

  // ---------------------------------------------------- evaluation (C02)
  // After every step each written, live object is evaluated at every grid
  // point and midpoint of the whole grid and compared with its own stored
  // pieces, so that evaluation is also observed *after* assignments, moves
  // and in-place updates of an object that has been evaluated before.
  template <size_t o>
  void evalCheck(size_t i) {
    if (!slot<o>(i).s) return;
    const Spline<T, o> &s = *slot<o>(i).s;
    const Den den = denote(s);
    const Win w{s.getSupport().getStartIndex(), s.getSupport().getEndIndex()};
    const size_t np = gridPts.size();
    std::vector<T> forward;
    for (size_t q = 0; q < 2 * np - 1; q++) {
      const R xr = (q % 2 == 0) ? gridPts[q / 2]
                                : R((gridPts[q / 2] + gridPts[q / 2 + 1]) / 2);
      const T x = mk<T>(xr);
      T val;
      try {
        val = s(x);
      } catch (const std::exception &e) {
        viol("C02", std::string("evaluation-throws/after-") + curStep,
             splineStr(s) + " x=" + model::rstr(xr) + " threw " + e.what());
        return;
      }
      const bool inside =
          w.nint() > 0 && xr >= gridPts[w.start] && xr <= gridPts[w.end - 1];
      bool ok = false;
      std::string why;
      if (!inside) {
        ok = toR<T>(val) == 0;
        if (!ok) why = "non-zero outside the support";
      } else {
        for (size_t k = w.start; k + 1 < w.end && !ok; k++) {
          if (!(xr >= gridPts[k] && xr <= gridPts[k + 1])) continue;
          const R xm = (gridPts[k] + gridPts[k + 1]) / 2;
          const R S = hsum(pabs(midCoeffs(s, k - w.start)), rabs(xr - xm));
          Verdict v = agreeScalar(val, model::peval(den.pc[k], xr), S);
          ok = v.ok;
          if (!ok) why = v.why;
        }
      }
      if (!ok) {
        viol("C02", std::string("wrong-value/after-") + curStep,
             splineStr(s) + " x=" + model::rstr(xr) + ": " + why);
        return;
      }
      c.count("c02:evaluations-in-history");
      forward.push_back(val);
    }
    // C14: evaluation is a read. The same abscissae in descending order must
    // give bit-identical values (an earlier evaluation must not influence a
    // later one).
    for (size_t q = 2 * np - 1; q-- > 0;) {
      const R xr = (q % 2 == 0) ? gridPts[q / 2]
                                : R((gridPts[q / 2] + gridPts[q / 2 + 1]) / 2);
      const T val = s(mk<T>(xr));
      if (!sameBits(val, forward[q])) {
        viol("C14", "evaluation-depends-on-evaluation-order",
             splineStr(s) + " x=" + model::rstr(xr) + " gave " +
                 model::rstr(toR<T>(forward[q])) + " in an ascending sweep and " +
                 model::rstr(toR<T>(val)) + " in a descending sweep");
        return;
      }
      c.count("c14:evaluations-repeated");
    }
    // Predicates and forms are reads as well. Observing them after every
    // write also fills whatever an implementation might remember per object,
    // so that a later mutation path that forgets to invalidate it shows at
    // the observation after that write (C15, C06, C07).
    {
      using namespace bspline::integration;
      const bool zero = model::dzerop(den);
      try {
        if (s.isZero() != zero)
          viol("C15", std::string("isZero/after-") + curStep,
               splineStr(s) + ": isZero() says " + (zero ? "false" : "true"));
        if (!(s == s) || (s != s))
          viol("C15", std::string("reflexive/after-") + curStep, splineStr(s));
        c.count("c15:predicates-after-write");
        R sp(0), spS(0), lf(0), lfS(0);
        const AbsM aa = absOf(s);
        for (size_t k = w.start; k + 1 < w.end; k++) {
          const R h = (gridPts[k + 1] - gridPts[k]) / 2;
          auto absInt = [&](const Poly &S) {
            R r(0), hp = h;
            for (size_t j = 0; j < S.size(); j++) {
              r += S[j] * 2 * hp / R(j + 1);
              hp *= h;
            }
            return r;
          };
          sp += model::pintegral(model::pmul(den.pc[k], den.pc[k]), gridPts[k], gridPts[k + 1]);
          spS += absInt(model::pmul(aa[k], aa[k]));
          lf += model::pintegral(den.pc[k], gridPts[k], gridPts[k + 1]);
          lfS += absInt(aa[k]);
        }
        Verdict v1 = agreeScalar(ScalarProduct{}(s, s), sp, spS);
        if (!v1.ok)
          viol("C06", std::string("self-scalar-product/after-") + curStep,
               splineStr(s) + ": " + v1.why);
        Verdict v2 = agreeScalar(LinearForm{}(s), lf, lfS);
        if (!v2.ok)
          viol("C07", std::string("linear-identity/after-") + curStep,
               splineStr(s) + ": " + v2.why);
        c.count("forms:after-write");
      } catch (const std::exception &e) {
        viol("C15", std::string("observation-throws/after-") + curStep,
             splineStr(s) + " threw " + e.what());
      }
    }
  }
  void evalWritten() {
    for (auto &wsl : writeSet) {
      if (wsl.second >= NSLOT) continue;
      dispatchOrder<MAXO>(wsl.first,
                          [&](auto O) { evalCheck<O.value>(wsl.second); });
    }
  }

  // ------------------------------------------------------------ creation
  template <size_t o>
  void fresh(size_t i, const Win &w, bool onTwin) {
    Slot<T, o> &sl = slot<o>(i);
    const CoefM cm = genCoefM(g, dyadic, w.nint(), o);
    sl.s.reset();
    sl.s.emplace(mkSpline<T, o>(onTwin ? *gridB : *gridA, w.start, w.end, cm));
    sl.shadow = denote(*sl.s);
  }
  template <size_t o>
  Win winOf(size_t i) {
    const auto &sup = slot<o>(i).s->getSupport();
    return Win{sup.getStartIndex(), sup.getEndIndex()};
  }
  template <size_t o>
  void ensure(size_t i) {
    if (!slot<o>(i).s) fresh<o>(i, genWin(g, n()), g.chance(1, 3));
  }
  template <size_t o>
  bool tooWild(const Spline<T, o> &s) {
    const R lo = R(1) / R(vq::Z(1) << 40), hi = R(vq::Z(1) << 40);
    const R hiQ = R(vq::Z(1) << 300);
    for (const auto &cs : s.getCoefficients())
      for (const auto &cf : cs) {
        if (!ST<T>::finite(cf)) return true;
        const R a = rabs(toR<T>(cf));
        if (ST<T>::exact) {
          if (a > hiQ) return true;
          if (boost::multiprecision::msb(
                  boost::multiprecision::denominator(a)) > 600)
            return true;
        } else if (a != 0 && (a < lo || a > hi))
          return true;
      }
    return false;
  }
  template <size_t o = 0>
  void tame() {
    for (size_t i = 0; i < NSLOT; i++)
      if (slot<o>(i).s && tooWild(*slot<o>(i).s)) {
        fresh<o>(i, genWin(g, n()), false);
        c.count("reseed-magnitude");
      }
    if constexpr (o < MAXO) tame<o + 1>();
  }

  void init() {
    gridPts = genGrid(g, dyadic, PLACEMENT_MIN_POINTS, 10);
    gridA.emplace(mkVec<T>(gridPts));
    gridB.emplace(mkVec<T>(gridPts));  // distinct instance, equal points
    masterA.assign(gridA->begin(), gridA->end());
    masterB.assign(gridB->begin(), gridB->end());
    // cousin: a logically different grid
    cousinPts = gridPts;
    switch (g.below(6)) {
      case 4:
        cousinPts.back() += 1;
        break;  // same size, only the last point differs
      case 5:
        cousinPts.front() -= 1;
        break;  // same size, only the first point differs
      case 0:
        cousinPts.pop_back();
        break;  // prefix
      case 1:
        cousinPts.erase(cousinPts.begin());
        break;  // suffix
      case 2:
        cousinPts.push_back(cousinPts.back() + 1);
        break;  // extra point right
      default: {
        const size_t k = (size_t)g.range(1, (int64_t)cousinPts.size() - 2);
        cousinPts[k] = (cousinPts[k] + cousinPts[k + 1]) / 2;  // one point moved
      }
    }
    gridC.emplace(mkVec<T>(cousinPts));
    initSlots();
  }
  template <size_t o = 0>
  void initSlots() {
    for (size_t i = 0; i < NSLOT; i++)
      fresh<o>(i, g.chance(1, 6) ? Win{0, 0} : genWin(g, n()), g.chance(1, 3));
    {
      const size_t cn = cousinPts.size();
      Win w = genWin(g, cn);
      cousin<o>().s.emplace(
          mkSpline<T, o>(*gridC, w.start, w.end, genCoefM(g, dyadic, w.nint(), o)));
    }
    if constexpr (o < MAXO) initSlots<o + 1>();
  }

  // ------------------------------------------------------------- checking
  template <size_t o>
  bool checkResult(const char *prop, const char *op, const Spline<T, o> &res,
                   const Den &expected, const AbsM &scale,
                   const std::string &opsDesc) {
    Verdict v = agreeSpline(res, expected, ST<T>::exact ? nullptr : &scale);
    if constexpr (!ST<T>::exact) c.maxval(std::string("ratio:") + op, v.ratio);
    if (!v.ok) {
      viol(prop, std::string("denotation/") + op,
           std::string(op) + " " + opsDesc + " -> " + splineStr(res) + ": " +
               v.why);
      if constexpr (!ST<T>::exact)
        c.violation("C16", std::string("pool/") + op, witness(v.why));
      return false;
    }
    c.count(std::string("c03:checked:") + op);
    return true;
  }
  template <size_t o>
  void store(size_t i, Spline<T, o> &&res, const Den &expected) {
    Slot<T, o> &sl = slot<o>(i);
    sl.s.reset();
    sl.s.emplace(std::move(res));
    sl.shadow = ST<T>::exact ? expected : denote(*sl.s);
    wrote(o, i);
  }
  template <size_t oa, size_t ob>
  void hashStep(const char *op, const Spline<T, oa> &a, const Spline<T, ob> &b) {
    if (!model::dzerop(denote(a)) && !model::dzerop(denote(b))) {
      Hasher h;
      h.s(op);
      h.u(oa);
      h.u(ob);
      h.u(a.getSupport().getStartIndex() * 1000 + a.getSupport().getEndIndex());
      h.u(b.getSupport().getStartIndex() * 1000 + b.getSupport().getEndIndex());
      for (const auto &p : gridPts) h.r(p);
      for (size_t j = 0; j < a.getCoefficients().size(); j++)
        for (const auto &x : midCoeffs(a, j)) h.r(x);
      for (size_t j = 0; j < b.getCoefficients().size(); j++)
        for (const auto &x : midCoeffs(b, j)) h.r(x);
      c.nontrivial(h.h);
    }
  }

  // --------------------------------------------------------------- steps
  // binary arithmetic a (op) b ; kind 0 '+', 1 '-', 2 '*', 3 '+=', 4 '-='
  template <size_t oa, size_t ob>
  void stepBinary(int kind) {
    static const char *names[] = {"add", "sub", "mul", "add-assign",
                                  "sub-assign"};
    size_t ia = g.below(NSLOT), ib = g.below(NSLOT);
    if (oa == ob && ia == ib && g.chance(1, 2)) ib = (ib + 1) % NSLOT;
    const bool alias = (oa == ob && ia == ib);
    beginStep(names[kind]);
    if (g.chance(1, 2) && !alias) {
      // re-seed both operands in a chosen relative placement
      const int pl = (int)g.below(P_COUNT);
      auto pr = genPlacement(g, n(), pl);
      fresh<oa>(ia, pr.first, g.chance(1, 3));
      fresh<ob>(ib, pr.second, g.chance(1, 3));
      wrote(oa, ia);
      wrote(ob, ib);
      endStep();
      beginStep(names[kind]);
    }
    ensure<oa>(ia);
    ensure<ob>(ib);
    wrote(oa, ia);  // ensure() may have created them
    wrote(ob, ib);
    endStep();
    beginStep(names[kind]);
    mark();
    Spline<T, oa> &a = *slot<oa>(ia).s;
    Spline<T, ob> &b = *slot<ob>(ib).s;
    const Den da = slot<oa>(ia).shadow, db = slot<ob>(ib).shadow;
    const int pl = classify(winOf<oa>(ia), winOf<ob>(ib));
    c.count(std::string("place:") + names[kind] + ":" + placementName(pl));
    c.count("orders:" + std::to_string(oa) + "," + std::to_string(ob));
    const std::string desc = splineStr(a) + " , " + splineStr(b);
    note(std::string(names[kind]) + "(" + std::to_string(oa) + "." +
         std::to_string(ia) + "," + std::to_string(ob) + "." +
         std::to_string(ib) + ")");
    hashStep(names[kind], a, b);
    const AbsM aa = absOf(a), ab = absOf(b);
    try {
      if (kind == 0 || kind == 1) {
        constexpr size_t orr = (oa > ob ? oa : ob);
        auto res = kind == 0 ? a + b : a - b;
        static_assert(std::is_same_v<decltype(res), Spline<T, orr>>);
        const Den ex = kind == 0 ? model::dadd(da, db) : model::dsub(da, db);
        checkResult("C03", names[kind], res, ex, absAdd(aa, ab), desc);
        store<orr>(g.below(NSLOT), std::move(res), ex);
      } else if (kind == 2) {
        auto res = a * b;
        const Den ex = model::dmul(da, db);
        checkResult("C03", names[kind], res, ex, absMul(aa, ab), desc);
        // C15: checkOverlap <=> product has an interval
        if (a.checkOverlap(b) != res.getSupport().containsIntervals())
          viol("C15", "checkOverlap-vs-product", desc);
        if constexpr (oa + ob <= MAXO)
          store<oa + ob>(g.below(NSLOT), std::move(res), ex);
      } else {
        if constexpr (ob <= oa) {
          if (kind == 3)
            a += b;
          else
            a -= b;
          const Den ex = kind == 3 ? model::dadd(da, db) : model::dsub(da, db);
          wrote(oa, ia);
          checkResult("C03", names[kind], a, ex, absAdd(aa, ab), desc);
          slot<oa>(ia).shadow = ST<T>::exact ? ex : denote(a);
        }
      }
    } VF_CATCH("C03", names[kind], desc)
    endStep();
  }

  // unary / scalar steps on one slot; kind: 0 c*a 1 a*c 2 a/c 3 -a 4 *= 5 /=
  // 6 *= with the scalar aliasing one of the spline's own coefficients
  template <size_t o>
  void stepScalar(int kind) {
    static const char *names[] = {"scalar-left", "scalar-right", "scalar-div",
                                  "negate", "mul-assign", "div-assign",
                                  "mul-assign-alias"};
    const size_t ia = g.below(NSLOT);
    beginStep(names[kind]);
    ensure<o>(ia);
    wrote(o, ia);
    endStep();
    beginStep(names[kind]);
    mark();
    Spline<T, o> &a = *slot<o>(ia).s;
    const Den da = slot<o>(ia).shadow;
    // multiplications also see the scalar 0 (never a divisor)
    const bool mayBeZero = kind == 0 || kind == 1 || kind == 4;
    const R cr = (mayBeZero && g.chance(1, 10)) ? R(0) : genScalar(g, dyadic);
    if (cr == 0) c.count("scalar:zero");
    const T cs = mk<T>(cr);
    const std::string desc = splineStr(a) + " c=" + model::rstr(cr);
    note(std::string(names[kind]) + "(" + std::to_string(o) + "." +
         std::to_string(ia) + ")");
    const AbsM aa = absOf(a);
    if (!model::dzerop(da)) {
      Hasher h;
      h.s(names[kind]);
      h.u(o);
      h.r(cr);
      for (size_t j = 0; j < a.getCoefficients().size(); j++)
        for (const auto &x : midCoeffs(a, j)) h.r(x);
      c.nontrivial(h.h);
    }
    try {
      switch (kind) {
        case 0: {
          auto res = cs * a;
          const Den ex = model::dscale(da, cr);
          checkResult("C03", names[kind], res, ex, absScale(aa, cr), desc);
          store<o>(g.below(NSLOT), std::move(res), ex);
          break;
        }
        case 1: {
          auto res = a * cs;
          const Den ex = model::dscale(da, cr);
          checkResult("C03", names[kind], res, ex, absScale(aa, cr), desc);
          store<o>(g.below(NSLOT), std::move(res), ex);
          break;
        }
        case 2: {
          auto res = a / cs;
          const Den ex = model::dscale(da, R(1) / cr);
          checkResult("C03", names[kind], res, ex, absScale(aa, R(1) / cr),
                      desc);
          store<o>(g.below(NSLOT), std::move(res), ex);
          break;
        }
        case 3: {
          auto res = -a;
          const Den ex = model::dscale(da, R(-1));
          checkResult("C03", names[kind], res, ex, aa, desc);
          store<o>(g.below(NSLOT), std::move(res), ex);
          break;
        }
        case 4:
        case 5: {
          if (kind == 4)
            a *= cs;
          else
            a /= cs;
          const R f = kind == 4 ? cr : R(R(1) / cr);
          const Den ex = model::dscale(da, f);
          wrote(o, ia);
          checkResult("C03", names[kind], a, ex, absScale(aa, f), desc);
          slot<o>(ia).shadow = ST<T>::exact ? ex : denote(a);
          break;
        }
        default: {
          // the scalar argument refers to one of the target's coefficients
          if (!a.getSupport().containsIntervals()) break;
          const size_t j = g.below(a.getCoefficients().size());
          const size_t k = g.below(o + 1);
          const T &ref = a.getCoefficients()[j][k];
          const R f = toR<T>(ref);
          if (f == 0) break;
          if (!ST<T>::exact) {
            // keep magnitudes bounded in floating runs
            const R af = rabs(f);
            if (af > 4096 || af < R(1) / 4096) break;
          }
          a *= ref;
          const Den ex = model::dscale(da, f);
          wrote(o, ia);
          checkResult("C03", names[kind], a, ex, absScale(aa, f),
                      desc + " (scalar = own coefficient [" +
                          std::to_string(j) + "][" + std::to_string(k) + "])");
          slot<o>(ia).shadow = ST<T>::exact ? ex : denote(a);
        }
      }
    } VF_CATCH("C03", names[kind], desc)
    endStep();
  }

  // copies, moves, assignments, destruction
  template <size_t o>
  void checkMovedFrom(const Spline<T, o> &src, const char *what) {
    bool ok = src.getSupport().getStartIndex() == 0 &&
              src.getSupport().getEndIndex() == 0 &&
              src.getCoefficients().empty() && src.isZero();
    bool sameGrid = false;
    try {
      sameGrid = src.getSupport().getGrid() == *gridA;
    } catch (const BSplineException &) {
    }
    if (!ok || !sameGrid)
      viol("C10", std::string("moved-from-state/") + what,
           std::string("after ") + what + " the source is " + splineStr(src) +
               (sameGrid ? "" : " on a different grid"));
    else
      c.count("c10:moved-from-checked");
  }

  template <size_t o>
  void stepLife(int kind) {
    static const char *names[] = {"construct",   "copy-construct", "copy-assign",
                                  "move-construct", "move-assign", "self-assign",
                                  "self-move",   "destroy",        "construct-empty",
                                  "construct-point", "support-move"};
    size_t ia = g.below(NSLOT), ib = (ia + 1 + g.below(NSLOT - 1)) % NSLOT;
    beginStep(names[kind]);
    mark();
    note(std::string(names[kind]) + "(" + std::to_string(o) + "." +
         std::to_string(ia) + "," + std::to_string(ib) + ")");
    try {
      switch (kind) {
        case 0:
          fresh<o>(ia, genWin(g, n()), g.chance(1, 3));
          wrote(o, ia);
          break;
        case 8:
          slot<o>(ia).s.reset();
          if (g.chance(1, 2))
            slot<o>(ia).s.emplace(g.chance(1, 2) ? *gridA : *gridB);
          else
            slot<o>(ia).s.emplace(
                Support<T>::createEmpty(g.chance(1, 2) ? *gridA : *gridB),
                std::vector<std::array<T, o + 1>>{});
          slot<o>(ia).shadow = model::dzero(gridPts);
          wrote(o, ia);
          break;
        case 9: {
          const size_t p = g.below(n());
          slot<o>(ia).s.reset();
          slot<o>(ia).s.emplace(Support<T>(*gridA, p, p + 1),
                                std::vector<std::array<T, o + 1>>{});
          slot<o>(ia).shadow = model::dzero(gridPts);
          wrote(o, ia);
          break;
        }
        case 1: {  // b = copy of a (construct)
          ensure<o>(ia);
          wrote(o, ia);
          Spline<T, o> cp(*slot<o>(ia).s);
          if (!(cp == *slot<o>(ia).s) || cp != *slot<o>(ia).s)
            viol("C15", "copy-not-equal", splineStr(cp));
          slot<o>(ib).s.reset();
          slot<o>(ib).s.emplace(std::move(cp));
          slot<o>(ib).shadow = slot<o>(ia).shadow;
          wrote(o, ib);
          break;
        }
        case 2: {
          ensure<o>(ia);
          ensure<o>(ib);
          wrote(o, ia);
          wrote(o, ib);
          endStep();
          beginStep(names[kind]);
          *slot<o>(ib).s = *slot<o>(ia).s;
          slot<o>(ib).shadow = slot<o>(ia).shadow;
          wrote(o, ib);
          if (!(*slot<o>(ib).s == *slot<o>(ia).s))
            viol("C15", "assigned-not-equal", splineStr(*slot<o>(ib).s));
          break;
        }
        case 3: {
          ensure<o>(ia);
          wrote(o, ia);
          endStep();
          beginStep(names[kind]);
          const Snap<T> was = snapOf(slot<o>(ia).s);
          Spline<T, o> mv(std::move(*slot<o>(ia).s));
          wrote(o, ia);
          checkMovedFrom(*slot<o>(ia).s, names[kind]);
          slot<o>(ia).shadow = model::dzero(gridPts);
          std::optional<Spline<T, o>> tmp(std::move(mv));
          const Snap<T> now = snapOf(tmp);
          if (!(was == now))
            viol("C10", "move-construct-changed-value",
                 "the moved-to object differs from the source's old value");
          slot<o>(ib).s.reset();
          slot<o>(ib).s.emplace(std::move(*tmp));
          slot<o>(ib).shadow = denote(*slot<o>(ib).s);
          wrote(o, ib);
          break;
        }
        case 4: {
          ensure<o>(ia);
          ensure<o>(ib);
          wrote(o, ia);
          wrote(o, ib);
          endStep();
          beginStep(names[kind]);
          const Snap<T> was = snapOf(slot<o>(ia).s);
          *slot<o>(ib).s = std::move(*slot<o>(ia).s);
          wrote(o, ia);
          wrote(o, ib);
          checkMovedFrom(*slot<o>(ia).s, names[kind]);
          if (!(was == snapOf(slot<o>(ib).s)))
            viol("C10", "move-assign-changed-value",
                 "the moved-to object differs from the source's old value");
          slot<o>(ib).shadow = slot<o>(ia).shadow;
          slot<o>(ia).shadow = model::dzero(gridPts);
          break;
        }
        case 5: {
          ensure<o>(ia);
          wrote(o, ia);
          endStep();
          beginStep(names[kind]);
          Spline<T, o> &ref = *slot<o>(ia).s;
          Spline<T, o> *alias = &ref;
          ref = *alias;  // self assignment: nothing may change (no write set)
          break;
        }
        case 6: {
          ensure<o>(ia);
          wrote(o, ia);
          endStep();
          beginStep(names[kind]);
#ifndef _GLIBCXX_DEBUG  // debug-mode std::vector forbids self-move-assignment
          Spline<T, o> &ref = *slot<o>(ia).s;
          Spline<T, o> *alias = &ref;
          ref = std::move(*alias);  // valid (possibly interval-free) afterwards
          wrote(o, ia);
          slot<o>(ia).shadow = denote(ref);
#endif
          break;
        }
        case 10: {
          // supports on their own: move construct / move assign, then reuse
          ensure<o>(ia);
          wrote(o, ia);
          endStep();
          beginStep(names[kind]);
          const Support<T> orig = slot<o>(ia).s->getSupport();
          Support<T> s1 = orig;
          Support<T> s2(std::move(s1));
          auto emptyOnSameGrid = [&](const Support<T> &s) {
            return s.getStartIndex() == 0 && s.getEndIndex() == 0 && s.empty() &&
                   s.size() == 0 && s.numberOfIntervals() == 0 &&
                   s.getGrid() == orig.getGrid() && s.hasSameGrid(orig);
          };
          if (!emptyOnSameGrid(s1) || !(s2 == orig))
            viol("C10", "moved-from-state/support-move-construct",
                 "window after move (" + std::to_string(s1.getStartIndex()) +
                     "," + std::to_string(s1.getEndIndex()) + ")");
          // the moved-from support is assigned to and combined again
          if (!(s1.calcUnion(s2) == orig) ||
              !(s2.calcIntersection(s1) == Support<T>::createEmpty(*gridA)))
            viol("C10", "moved-from-support-not-usable", "");
          s1 = s2;
          if (!(s1 == orig)) viol("C10", "moved-from-support-reassign", "");
          Support<T> s3 = Support<T>::createEmpty(*gridB);
          s3 = std::move(s2);
          if (!emptyOnSameGrid(s2) || !(s3 == orig))
            viol("C10", "moved-from-state/support-move-assign", "");
          c.count("c10:moved-from-support-checked");
          break;
        }
        default:
          slot<o>(ia).s.reset();
          wrote(o, ia);
      }
    } VF_CATCH("C10", names[kind], "")
    endStep();
  }

  // cross-order assignment  hi = lo  (olo < ohi)
  template <size_t olo, size_t ohi>
  void stepCrossAssign() {
    if constexpr (olo < ohi) {
      const size_t ia = g.below(NSLOT), ib = g.below(NSLOT);
      beginStep("cross-order-assign");
      if (g.chance(1, 2)) {
        // target and source on the very same window (stale high-order
        // coefficients of the target must not survive)
        const Win w = genWin(g, n());
        fresh<olo>(ia, w, g.chance(1, 3));
        fresh<ohi>(ib, w, g.chance(1, 3));
        c.count("cross-order-assign:same-window");
      }
      ensure<olo>(ia);
      ensure<ohi>(ib);
      wrote(olo, ia);
      wrote(ohi, ib);
      endStep();
      beginStep("cross-order-assign");
      mark();
      note("cross-assign(" + std::to_string(ohi) + "." + std::to_string(ib) +
           "=" + std::to_string(olo) + "." + std::to_string(ia) + ")");
      const std::string desc = "target " + splineStr(*slot<ohi>(ib).s) +
                               " = " + splineStr(*slot<olo>(ia).s);
      try {
        *slot<ohi>(ib).s = *slot<olo>(ia).s;
        wrote(ohi, ib);
        const Den ex = slot<olo>(ia).shadow;
        checkResult("C03", "cross-order-assign", *slot<ohi>(ib).s, ex,
                    absOf(*slot<olo>(ia).s), desc);
        slot<ohi>(ib).shadow = ex;
      } VF_CATCH("C03", "cross-order-assign", desc)
      endStep();
    }
  }

  // operator applications from a compiled catalogue
  template <size_t o>
  void stepOperator(int kind) {
    using namespace bspline::operators;
    static const char *names[] = {"op-identity", "op-Dx1", "op-Dx2", "op-X1",
                                  "op-X2",       "op-factor"};
    const size_t ia = g.below(NSLOT);
    beginStep(names[kind]);
    ensure<o>(ia);
    wrote(o, ia);
    endStep();
    beginStep(names[kind]);
    mark();
    const Spline<T, o> &a = *slot<o>(ia).s;
    const Den da = slot<o>(ia).shadow;
    const AbsM aa = absOf(a);
    const std::string desc = splineStr(a);
    note(std::string(names[kind]) + "(" + std::to_string(o) + "." +
         std::to_string(ia) + ")");
    auto finish = [&](auto &&res, const Den &ex, const AbsM &sc) {
      using RT = std::decay_t<decltype(res)>;
      constexpr size_t ro = RT::spline_order;
      checkResult("C04", names[kind], res, ex, sc, desc);
      if (res.getSupport().getStartIndex() != a.getSupport().getStartIndex() ||
          res.getSupport().getEndIndex() != a.getSupport().getEndIndex())
        viol("C04", std::string("window/") + names[kind], desc);
      if constexpr (ro <= MAXO) store<ro>(g.below(NSLOT), std::move(res), ex);
    };
    try {
      switch (kind) {
        case 0: {
          auto res = IdentityOperator{} * a;
          if (!(res == a)) viol("C04", "identity-not-equal", desc);
          finish(std::move(res), da, aa);
          break;
        }
        case 1:
          finish(Dx<1>{} * a, model::dderiv(da, 1), absDeriv(aa, 1));
          break;
        case 2:
          finish(Dx<2>{} * a, model::dderiv(da, 2), absDeriv(aa, 2));
          break;
        case 3:
          finish(X<1>{} * a, model::dmulx(da, 1), absMulX(aa, 1, gridPts));
          break;
        case 4:
          finish(X<2>{} * a, model::dmulx(da, 2), absMulX(aa, 2, gridPts));
          break;
        default: {
          // spline-valued factor taken from the order-1 (or 0) slots
          constexpr size_t of = (MAXO >= 1) ? 1 : 0;
          const size_t iv = g.below(NSLOT);
          ensure<of>(iv);
          wrote(of, iv);
          const Spline<T, of> &v = *slot<of>(iv).s;
          const int pl = classify(winOf<o>(ia), winOf<of>(iv));
          c.count(std::string("place:op-factor:") + placementName(pl));
          auto res = SplineOperator{v} * a;
          // factor acts as pointwise multiplication on the operand's window
          Den ex = model::dmul(da, slot<of>(iv).shadow);
          const Win wa = winOf<o>(ia);
          for (size_t k = 0; k < ex.pc.size(); k++)
            if (!(k >= wa.start && k + 1 < wa.end)) ex.pc[k].clear();
          checkResult("C05", names[kind], res, ex, absMul(aa, absOf(v)),
                      desc + " factor " + splineStr(v));
          if (res.getSupport().getStartIndex() != wa.start ||
              res.getSupport().getEndIndex() != wa.end)
            viol("C05", "window/op-factor", desc);
          if constexpr (o + of <= MAXO)
            store<o + of>(g.below(NSLOT), std::move(res), ex);
        }
      }
    } VF_CATCH(kind == 5 ? "C05" : "C04", names[kind], desc)
    endStep();
  }

  // forms over pool objects (incl. moved-from, interval-free, point-like ones)
  template <size_t oa, size_t ob>
  void stepForms() {
    using namespace bspline::operators;
    using namespace bspline::integration;
    const size_t ia = g.below(NSLOT), ib = g.below(NSLOT);
    beginStep("forms");
    ensure<oa>(ia);
    ensure<ob>(ib);
    wrote(oa, ia);
    wrote(ob, ib);
    endStep();
    beginStep("forms");
    mark();
    const Spline<T, oa> &a = *slot<oa>(ia).s;
    const Spline<T, ob> &b = *slot<ob>(ib).s;
    const Den da = slot<oa>(ia).shadow, db = slot<ob>(ib).shadow;
    const AbsM aa = absOf(a), ab = absOf(b);
    const Win wa = winOf<oa>(ia), wb = winOf<ob>(ib);
    const std::string desc = splineStr(a) + " , " + splineStr(b);
    note("forms(" + std::to_string(oa) + "." + std::to_string(ia) + "," +
         std::to_string(ob) + "." + std::to_string(ib) + ")");
    c.count(std::string("place:forms:") + placementName(classify(wa, wb)));
    const size_t lo = std::max(wa.start, wb.start), hi = std::min(wa.end, wb.end);
    auto absInt = [&](const Poly &S, const R &h) {
      R r(0), hp = h;
      for (size_t j = 0; j < S.size(); j++) {
        r += S[j] * 2 * hp / R(j + 1);
        hp *= h;
      }
      return r;
    };
    try {
      R sp(0), spS(0), xd(0), xdS(0);
      const Den xa = model::dmulx(da, 1), ddb = model::dderiv(db, 1);
      const AbsM xaA = absMulX(aa, 1, gridPts), ddbA = absDeriv(ab, 1);
      if (!wa.empty() && !wb.empty())
        for (size_t k = lo; k + 1 < hi; k++) {
          const R h = (gridPts[k + 1] - gridPts[k]) / 2;
          sp += model::pintegral(model::pmul(da.pc[k], db.pc[k]), gridPts[k], gridPts[k + 1]);
          spS += absInt(model::pmul(aa[k], ab[k]), h);
          xd += model::pintegral(model::pmul(xa.pc[k], ddb.pc[k]), gridPts[k], gridPts[k + 1]);
          xdS += absInt(model::pmul(xaA[k], ddbA[k]), h);
        }
      auto judge = [&](const char *prop, const char *what, const T &val,
                       const R &ex, const R &S) {
        Verdict v = agreeScalar(val, ex, S);
        if constexpr (!ST<T>::exact) c.maxval(std::string("ratio:") + what, v.ratio);
        if (!v.ok) viol(prop, std::string("history/") + what, desc + ": " + v.why);
        c.count(std::string("forms:") + what);
      };
      judge("C06", "scalar-product", ScalarProduct{}(a, b), sp, spS);
      judge("C06", "bilinear-X-Dx", BilinearForm{X<1>{}, Dx<1>{}}(a, b), xd, xdS);
      R lf(0), lfS(0), l2(0), l2S(0);
      const Den x2 = model::dmulx(da, 2);
      const AbsM x2A = absMulX(aa, 2, gridPts);
      for (size_t k = wa.start; k + 1 < wa.end; k++) {
        const R h = (gridPts[k + 1] - gridPts[k]) / 2;
        lf += model::pintegral(x2.pc[k], gridPts[k], gridPts[k + 1]);
        lfS += absInt(x2A[k], h);
      }
      for (size_t k = wb.start; k + 1 < wb.end; k++) {
        const R h = (gridPts[k + 1] - gridPts[k]) / 2;
        l2 += model::pintegral(db.pc[k], gridPts[k], gridPts[k + 1]);
        l2S += absInt(ab[k], h);
      }
      judge("C07", "linear-X2", LinearForm{X<2>{}}(a), lf, lfS);
      judge("C07", "linear-identity", LinearForm{}(b), l2, l2S);
    } VF_CATCH("C06", "forms", desc)
    endStep();
  }

  // an object that changes its grid during its lifetime: it lives on the
  // cousin grid, is refused once, is then overwritten by a value on the main
  // grid (through a move assignment / temporary / lower-order assignment) and
  // must from then on combine with main-grid objects; and the mirror image.
  template <size_t oa, size_t ob>
  void stepMigrate() {
    const size_t ia = g.below(NSLOT), ib = g.below(NSLOT);
    beginStep("grid-migration");
    ensure<oa>(ia);
    ensure<ob>(ib);
    wrote(oa, ia);
    wrote(ob, ib);
    endStep();
    beginStep("grid-migration");
    mark();
    const Spline<T, oa> &a = *slot<oa>(ia).s;
    const Spline<T, ob> &b = *slot<ob>(ib).s;
    const Den da = slot<oa>(ia).shadow, db = slot<ob>(ib).shadow;
    const std::string desc = splineStr(a) + " , " + splineStr(b);
    note("migrate(" + std::to_string(oa) + "." + std::to_string(ia) + "," +
         std::to_string(ob) + "." + std::to_string(ib) + ")");
    auto refused = [&](auto &&f) {
      try {
        f();
      } catch (const BSplineException &e) {
        return e.getErrorCode() == ErrorCode::DIFFERING_GRIDS;
      } catch (const std::exception &) {
      }
      return false;
    };
    try {
      Spline<T, oa> x = *cousin<oa>().s;  // starts on the cousin grid
      if (!refused([&] { auto r = x + b; (void)r; }) ||
          !refused([&] { auto r = b * x; (void)r; }))
        viol("C08", "cross-grid/migration-before", desc);
      const int how = (int)g.below(3);
      if (how == 0) {
        Spline<T, oa> tmp(a);
        x = std::move(tmp);
      } else if (how == 1) {
        x = a * mk<T>(R(1));
      } else {
        x = Spline<T, oa>(a);
      }
      c.count("migration:how:" + std::to_string(how));
      // now x denotes a and lives on the main grid
      checkResult("C03", "add", x + b, model::dadd(da, db), absAdd(absOf(x), absOf(b)),
                  desc + " (left operand migrated from another grid)");
      checkResult("C03", "add", b + x, model::dadd(da, db), absAdd(absOf(x), absOf(b)),
                  desc + " (right operand migrated from another grid)");
      checkResult("C03", "mul", x * b, model::dmul(da, db), absMul(absOf(x), absOf(b)),
                  desc + " (left operand migrated from another grid)");
      if (!(x == a))
        viol("C15", "spline-equality/after-migration", desc);
      // mirror image: y has combined with b, then moves to the cousin grid
      Spline<T, oa> y(a);
      { auto r = y + b; (void)r; }
      { auto r = b * y; (void)r; }
      Spline<T, oa> tmp2(*cousin<oa>().s);
      if (g.chance(1, 2))
        y = std::move(tmp2);
      else
        y = tmp2 * mk<T>(R(1));
      if (!refused([&] { auto r = y + b; (void)r; }) ||
          !refused([&] { auto r = b + y; (void)r; }) ||
          !refused([&] { auto r = y * b; (void)r; }))
        viol("C08", "cross-grid/migration-after", desc);
      // an interval-free object on the cousin grid takes over an interval-free
      // value on the main grid and is then used as an accumulator
      {
        Spline<T, oa> acc(*gridC);
        if (g.chance(1, 2))
          acc = Spline<T, oa>(g.chance(1, 2) ? *gridA : *gridB);
        else {
          Spline<T, oa> e(*gridA);
          acc = std::move(e);
        }
        if (!(acc.getSupport().getGrid() == *gridA) ||
            acc.getSupport().getGrid() == *gridC)
          viol("C10", "moved-to-state/empty-migration",
               "an interval-free spline assigned from another grid kept its old grid");
        acc += a;
        checkResult("C03", "add-assign", acc, da, absOf(a),
                    desc + " (accumulator migrated while interval-free)");
        c.count("migration:empty");
      }
      c.count("migration:checked");
    } VF_CATCH("C03", "grid-migration", desc)
    endStep();
  }

#ifdef VF_FAILPOINTS
  // allocation failure injected at every allocation of an assignment or
  // in-place operation in turn: afterwards the target is unchanged (C14) and
  // every object valid (C10)
  template <size_t oa, size_t ob>
  void stepAllocFault() {
    static const char *names[] = {"alloc-fault-copy-assign", "alloc-fault-add-assign",
                                  "alloc-fault-sub-assign", "alloc-fault-cross-assign",
                                  "alloc-fault-move-assign-temporary"};
    const int kind = (int)g.below(5);
    const size_t ia = g.below(NSLOT), ib = g.below(NSLOT);
    if (oa == ob && ia == ib) return;
    beginStep(names[kind]);
    // source and target with fresh, different windows (so that the target's
    // storage cannot simply be reused)
    fresh<oa>(ia, genWin(g, n()), g.chance(1, 3));
    fresh<ob>(ib, genWin(g, n()), g.chance(1, 3));
    wrote(oa, ia);
    wrote(ob, ib);
    endStep();
    note(std::string(names[kind]) + "(" + std::to_string(oa) + "." +
         std::to_string(ia) + "<-" + std::to_string(ob) + "." + std::to_string(ib) + ")");
    Spline<T, oa> &t = *slot<oa>(ia).s;
    const Spline<T, ob> &src = *slot<ob>(ib).s;
    for (long k = 1; k <= 24; k++) {
      beginStep(names[kind]);  // snapshot; empty write set
      if (k == 1) mark();
      faulting = true;
      bool threw = false, applicable = true;
      fp::countdown = k;
      fp::seen = 0;
      fp::armed = true;
      try {
        switch (kind) {
          case 0:
            if constexpr (oa == ob) t = src; else applicable = false;
            break;
          case 1:
            if constexpr (ob <= oa) t += src; else applicable = false;
            break;
          case 2:
            if constexpr (ob <= oa) t -= src; else applicable = false;
            break;
          case 3:
            if constexpr (ob < oa) t = src; else applicable = false;
            break;
          default:
            if constexpr (oa == ob) t = src * mk<T>(R(2)); else applicable = false;
        }
      } catch (const std::bad_alloc &) {
        threw = true;
      } catch (const std::exception &e) {
        fp::armed = false;
        viol("C10", std::string("foreign-exception/") + names[kind], e.what());
      }
      fp::armed = false;
      if (!applicable) {
        endStep();
        return;
      }
      if (threw) {
        c.count("alloc-fault:injected");
        c.count(std::string("alloc-fault:") + names[kind]);
        endStep();  // target not in the write set: must be bit-identical, valid
      } else {
        // the call completed: it is an ordinary assignment now
        wrote(oa, ia);
        slot<oa>(ia).shadow = denote(t);
        endStep();
        c.count("alloc-fault:completed");
        return;
      }
    }
  }

  // allocation failure injected at every allocation of a NON-mutating
  // operation in turn (sum, product, scalar multiple, operator application,
  // spline factor, linearCombination, copy construction, support algebra,
  // forms): after every failed attempt every live object is bit-identical
  // (C14) and valid (C10); once the call completes its result is judged like
  // any other (C03/C04/C05) - a half-updated cache or lazily filled member
  // would show in either.
  template <size_t oa, size_t ob>
  void stepAllocFaultPure() {
    using namespace bspline::operators;
    using namespace bspline::integration;
    static const char *names[] = {
        "alloc-fault-add",      "alloc-fault-mul",         "alloc-fault-scalar",
        "alloc-fault-X1",       "alloc-fault-factor",      "alloc-fault-lincomb",
        "alloc-fault-copy-ctor", "alloc-fault-support-union", "alloc-fault-forms",
        "alloc-fault-Dx1-sub"};
    const int kind = (int)g.below(10);
    const size_t ia = g.below(NSLOT), ib = g.below(NSLOT);
    beginStep(names[kind]);
    if (g.chance(1, 2) && !(oa == ob && ia == ib)) {
      auto pr = genPlacement(g, n(), (int)g.below(P_COUNT));
      fresh<oa>(ia, pr.first, g.chance(1, 3));
      fresh<ob>(ib, pr.second, g.chance(1, 3));
    }
    ensure<oa>(ia);
    ensure<ob>(ib);
    wrote(oa, ia);
    wrote(ob, ib);
    endStep();
    note(std::string(names[kind]) + "(" + std::to_string(oa) + "." + std::to_string(ia) +
         "," + std::to_string(ob) + "." + std::to_string(ib) + ")");
    const Spline<T, oa> &a = *slot<oa>(ia).s;
    const Spline<T, ob> &b = *slot<ob>(ib).s;
    const Den da = slot<oa>(ia).shadow, db = slot<ob>(ib).shadow;
    const AbsM aa = absOf(a), ab = absOf(b);
    const std::string desc = splineStr(a) + " , " + splineStr(b);
    const T two = mk<T>(R(2));
    for (long k = 1; k <= 40; k++) {
      beginStep(names[kind]);  // snapshot; empty write set
      if (k == 1) mark();
      faulting = true;
      bool threw = false;
      fp::countdown = k;
      fp::seen = 0;
      fp::armed = true;
      try {
        switch (kind) {
          case 0: {
            auto r = a + b;
            fp::armed = false;
            checkResult("C03", names[kind], r, model::dadd(da, db), absAdd(aa, ab), desc);
            break;
          }
          case 1: {
            auto r = a * b;
            fp::armed = false;
            checkResult("C03", names[kind], r, model::dmul(da, db), absMul(aa, ab), desc);
            break;
          }
          case 2: {
            auto r = two * a;
            fp::armed = false;
            checkResult("C03", names[kind], r, model::dscale(da, R(2)), absScale(aa, R(2)), desc);
            break;
          }
          case 3: {
            auto r = X<1>{} * a;
            fp::armed = false;
            checkResult("C04", names[kind], r, model::dmulx(da, 1), absMulX(aa, 1, gridPts), desc);
            break;
          }
          case 4: {
            auto r = SplineOperator{b} * a;
            fp::armed = false;
            Den ex = model::dmul(da, db);
            const Win wa = winOf<oa>(ia);
            for (size_t j = 0; j < ex.pc.size(); j++)
              if (!(j >= wa.start && j + 1 < wa.end)) ex.pc[j].clear();
            checkResult("C05", names[kind], r, ex, absMul(aa, ab), desc);
            break;
          }
          case 5: {
            if constexpr (oa == ob) {
              std::vector<Spline<T, oa>> ms{a, b};
              std::vector<T> cf{two, mk<T>(R(-1))};
              auto r = bspline::linearCombination(cf, ms);
              fp::armed = false;
              checkResult("C03", names[kind], r, model::dsub(model::dscale(da, R(2)), db),
                          absAdd(absScale(aa, R(2)), ab), desc);
            }
            break;
          }
          case 6: {
            Spline<T, oa> r(a);
            fp::armed = false;
            if (!(r == a)) viol("C15", "copy-not-equal/alloc-fault-copy-ctor", desc);
            checkResult("C03", names[kind], r, da, aa, desc);
            break;
          }
          case 7: {
            auto u = a.getSupport().calcUnion(b.getSupport());
            auto i = a.getSupport().calcIntersection(b.getSupport());
            fp::armed = false;
            const Win wa = winOf<oa>(ia), wb = winOf<ob>(ib);
            if (!wa.empty() && !wb.empty() &&
                (u.getStartIndex() != std::min(wa.start, wb.start) ||
                 u.getEndIndex() != std::max(wa.end, wb.end)))
              viol("C13", "union/alloc-fault-support-union", desc);
            (void)i;
            break;
          }
          case 8: {
            const T v1 = ScalarProduct{}(a, b);
            const T v2 = LinearForm{X<1>{}}(a);
            const T w1 = ScalarProduct{}(a, b);
            const T w2 = LinearForm{X<1>{}}(a);
            fp::armed = false;
            if (!sameBits(v1, w1) || !sameBits(v2, w2))
              viol("C14", "form-value-changed/alloc-fault-forms", desc);
            break;
          }
          default: {
            auto r = (Dx<1>{} - two) * a;
            fp::armed = false;
            checkResult("C05", names[kind], r,
                        model::dsub(model::dderiv(da, 1), model::dscale(da, R(2))),
                        absAdd(absDeriv(aa, 1), absScale(aa, R(2))), desc);
          }
        }
      } catch (const std::bad_alloc &) {
        threw = true;
      } catch (const std::exception &e) {
        fp::armed = false;
        viol("C10", std::string("foreign-exception/") + names[kind], e.what());
      }
      fp::armed = false;
      if (threw) {
        c.count("alloc-fault:injected");
        c.count(std::string("alloc-fault:") + names[kind]);
        endStep();  // empty write set: every object bit-identical and valid
      } else {
        endStep();
        c.count("alloc-fault:completed");
        c.count("alloc-fault:pure-completed");
        return;
      }
    }
  }
#endif

  // linearCombination over copies of slots of one order
  template <size_t o>
  void stepLinComb() {
    beginStep("linear-combination");
    mark();
    const size_t k = (size_t)g.range(1, 6);
    std::vector<Spline<T, o>> members;
    std::vector<T> coefs;
    std::vector<R> coefsR;
    Den ex = model::dzero(gridPts);
    AbsM sc(gridPts.size() - 1);
    std::string desc;
    for (size_t m = 0; m < k; m++) {
      const int how = (int)g.below(6);
      if (how == 0) {
        members.emplace_back(g.chance(1, 2) ? *gridA : *gridB);  // interval-free
      } else if (how == 1) {
        const size_t p = g.below(n());
        members.emplace_back(Support<T>(*gridA, p, p + 1),
                             std::vector<std::array<T, o + 1>>{});  // point-like
      } else if (how == 2) {
        const size_t i = g.below(NSLOT);
        ensure<o>(i);
        wrote(o, i);
        members.push_back(*slot<o>(i).s);
      } else {
        const Win w = genWin(g, n());
        members.push_back(mkSpline<T, o>(g.chance(1, 3) ? *gridB : *gridA,
                                         w.start, w.end,
                                         genCoefM(g, dyadic, w.nint(), o)));
      }
      const R cr = g.chance(1, 8) ? R(0) : genScalar(g, dyadic);
      coefsR.push_back(cr);
      coefs.push_back(mk<T>(cr));
      ex = model::dadd(ex, model::dscale(denote(members.back()), cr));
      sc = absAdd(sc, absScale(absOf(members.back()), cr));
      desc += model::rstr(cr) + "*" + splineStr(members.back()) + " ";
    }
    note("lincomb(order " + std::to_string(o) + ", " + std::to_string(k) + ")");
    c.count("lincomb:size:" + std::to_string(k));
    try {
      auto res = g.chance(1, 2)
                     ? bspline::linearCombination(coefs, members)
                     : bspline::linearCombination(coefs.begin(), coefs.end(),
                                                  members.begin(), members.end());
      static_assert(std::is_same_v<decltype(res), Spline<T, o>>);
      checkResult("C03", "linear-combination", res, ex, sc, desc);
      Hasher h;
      h.s("lincomb");
      h.s(desc);
      if (!model::dzerop(ex)) c.nontrivial(h.h);
      store<o>(g.below(NSLOT), std::move(res), ex);
    } VF_CATCH("C03", "linear-combination", desc)
    endStep();
  }

  // predicates on a pair of equal-order slots / any pair
  template <size_t oa, size_t ob>
  void stepPredicates() {
    const size_t ia = g.below(NSLOT), ib = g.below(NSLOT);
    beginStep("predicates");
    ensure<oa>(ia);
    ensure<ob>(ib);
    wrote(oa, ia);
    wrote(ob, ib);
    endStep();
    beginStep("predicates");
    mark();
    const Spline<T, oa> &a = *slot<oa>(ia).s;
    const Spline<T, ob> &b = *slot<ob>(ib).s;
    const std::string desc = splineStr(a) + " , " + splineStr(b);
    note("predicates(" + std::to_string(oa) + "." + std::to_string(ia) + "," +
         std::to_string(ob) + "." + std::to_string(ib) + ")");
    // isZero <=> the denotation is the zero function
    const bool za = model::dzerop(denote(a));
    if (a.isZero() != za)
      viol("C15", "isZero", splineStr(a) + " isZero()=" +
                                (a.isZero() ? "true" : "false"));
    c.count(za ? "pred:isZero:true" : "pred:isZero:false");
    // checkOverlap <=> the windows share an interval
    const Win wa = winOf<oa>(ia), wb = winOf<ob>(ib);
    const size_t lo = std::max(wa.start, wb.start), hi = std::min(wa.end, wb.end);
    const bool share = !wa.empty() && !wb.empty() && hi > lo && hi - lo >= 2;
    const int pl = classify(wa, wb);
    if (a.checkOverlap(b) != share || b.checkOverlap(a) != share)
      viol("C15", std::string("checkOverlap/") + placementName(pl),
           desc + " checkOverlap=" + (a.checkOverlap(b) ? "true" : "false"));
    c.count(std::string("pred:overlap:") + placementName(pl) + ":" +
            (share ? "true" : "false"));
    // equality
    if constexpr (oa == ob) {
      bool coefEq = a.getCoefficients().size() == b.getCoefficients().size();
      if (coefEq)
        for (size_t j = 0; j < a.getCoefficients().size(); j++)
          for (size_t k = 0; k <= oa; k++)
            if (!(a.getCoefficients()[j][k] == b.getCoefficients()[j][k]))
              coefEq = false;
      const bool winEq = (wa.start == wb.start && wa.end == wb.end) ||
                         (wa.empty() && wb.empty());
      const bool expect = winEq && coefEq;  // both live on the main grid family
      if ((a == b) != expect || (b == a) != expect || (a != b) == expect ||
          !(a == a) || (a != a))
        viol("C15", "spline-equality",
             desc + " a==b is " + ((a == b) ? "true" : "false") + ", expected " +
                 (expect ? "true" : "false"));
      c.count(expect ? "pred:eq:true" : "pred:eq:false");
      // against the cousin grid: never equal
      if (cousin<oa>().s && (a == *cousin<oa>().s || !(a != *cousin<oa>().s)))
        viol("C15", "spline-equality/different-grid", desc);
    }
    // supports and grids
    const Support<T> &sa = a.getSupport(), &sb = b.getSupport();
    const bool supEq = (wa.start == wb.start && wa.end == wb.end) ||
                       (wa.empty() && wb.empty());
    if ((sa == sb) != supEq || (sa != sb) == supEq || !(sa == sa) ||
        (sb == sa) != supEq)
      viol("C15", "support-equality", desc);
    if (!(sa.getGrid() == sb.getGrid()) || sa.getGrid() != sb.getGrid() ||
        !(*gridA == *gridB) || *gridA == *gridC || !(*gridA != *gridC))
      viol("C15", "grid-equality", desc);
    c.count("pred:support-eq");
    {
      const std::string lie = predicateNearMisses(a, g);
      if (!lie.empty()) viol("C15", "near-miss", splineStr(a) + ": " + lie);
      c.count("pred:near-misses");
    }
    endStep();
  }

  // failing calls: afterwards everything is unchanged
  template <size_t oa, size_t ob>
  void stepFailing(int kind) {
    static const char *names[] = {"fail-add",      "fail-sub",   "fail-mul",
                                  "fail-add-assign", "fail-sub-assign",
                                  "fail-lincomb",  "fail-ctor-count",
                                  "fail-front-empty", "fail-at",
                                  "fail-lincomb-size", "fail-factor",
                                  "fail-grid-ctor"};
    const size_t ia = g.below(NSLOT);
    beginStep(names[kind]);
    ensure<oa>(ia);
    wrote(oa, ia);
    endStep();
    beginStep(names[kind]);  // empty write set from here on
    mark();
    failing = true;
    Spline<T, oa> &a = *slot<oa>(ia).s;
    const Spline<T, ob> &x = *cousin<ob>().s;
    note(std::string(names[kind]) + "(" + std::to_string(oa) + "." +
         std::to_string(ia) + ")");
    bool threw = false, rightCode = false, foreign = false;
    auto expectGrid = [&](auto &&f) {
      try {
        f();
      } catch (const BSplineException &e) {
        threw = true;
        rightCode = e.getErrorCode() == ErrorCode::DIFFERING_GRIDS;
      } catch (const std::exception &) {
        foreign = true;
      }
      if (!threw || !rightCode)
        viol("C08", std::string("cross-grid/") + names[kind],
             std::string(foreign ? "foreign exception"
                                 : (threw ? "wrong error code" : "no exception")) +
                 " for " + splineStr(a) + " with cousin " + splineStr(x) +
                 " on grid " + gridStr(cousinPts));
      else
        c.count("c08:refused-in-history");
    };
    auto expectAny = [&](auto &&f, const char *prop) {
      try {
        f();
      } catch (const BSplineException &) {
        threw = true;
      } catch (const std::exception &) {
        foreign = true;
      }
      if (!threw)
        viol(prop, std::string("not-refused/") + names[kind],
             foreign ? "foreign exception type" : "no exception");
      else
        c.count("failing-call-refused");
    };
    switch (kind) {
      case 0:
        expectGrid([&] { auto r = g.chance(1, 2) ? a + x : x + a; (void)r; });
        break;
      case 1:
        expectGrid([&] { auto r = g.chance(1, 2) ? a - x : x - a; (void)r; });
        break;
      case 2:
        expectGrid([&] { auto r = g.chance(1, 2) ? a * x : x * a; (void)r; });
        break;
      case 3:
        if constexpr (ob <= oa) expectGrid([&] { a += x; });
        break;
      case 4:
        if constexpr (ob <= oa) expectGrid([&] { a -= x; });
        break;
      case 5:
        if constexpr (oa == ob) {
          std::vector<Spline<T, oa>> ms;
          std::vector<T> cs;
          const size_t k = (size_t)g.range(2, 4), odd = g.below(k);
          for (size_t m = 0; m < k; m++) {
            ms.push_back(m == odd ? x : a);
            cs.push_back(mk<T>(genScalar(g, dyadic)));
          }
          expectGrid([&] { auto r = bspline::linearCombination(cs, ms); (void)r; });
        }
        break;
      case 6: {
        // wrong number of coefficient arrays for the window
        const Win w = genWin(g, n());
        size_t cnt = g.below(w.nint() + 3);
        if (cnt == w.nint()) cnt++;
        std::vector<std::array<T, oa + 1>> cs(
            cnt, bspline::internal::make_array<T, oa + 1>(mk<T>(R(1))));
        expectAny([&] {
          Spline<T, oa> bad(Support<T>(*gridA, w.start, w.end), std::move(cs));
          (void)bad;
        }, "C11");
        break;
      }
      case 7: {
        Spline<T, oa> e(*gridA);
        expectAny([&] { (void)e.front(); }, "C02");
        threw = false;
        expectAny([&] { (void)e.back(); }, "C02");
        break;
      }
      case 8: {
        const size_t sz = a.getSupport().size();
        const size_t idx = g.chance(1, 2) ? sz + g.below(3)
                                          : ~size_t(0) - g.below(n() + 2);
        expectAny([&] { (void)a.getSupport().at(idx); }, "C09");
        break;
      }
      case 9: {
        std::vector<Spline<T, oa>> ms(g.below(3), a);
        std::vector<T> cs(ms.size() + 1 + g.below(2), mk<T>(R(1)));
        if (g.chance(1, 3)) {
          ms.clear();
          cs.clear();
        }
        expectAny([&] { auto r = bspline::linearCombination(cs, ms); (void)r; },
                  "C11");
        break;
      }
      case 11: {
        // a malformed point sequence must not become a live grid
        std::vector<R> bad = gridPts;
        const size_t pos = g.below(bad.size() - 1);
        const int defect = (int)g.below(ST<T>::exact ? 3 : 4);
        if (defect == 0)
          std::swap(bad[pos], bad[pos + 1]);  // descent
        else if (defect == 1)
          bad[pos + 1] = bad[pos];  // duplicate
        else if (defect == 2)
          bad.resize(g.below(2));  // too short
        std::vector<T> badT = mkVec<T>(bad);
        if constexpr (!ST<T>::exact)
          if (defect == 3) badT[pos + g.below(2)] = (T)NAN;  // not ordered
        std::optional<Grid<T>> made;
        expectAny([&] { made.emplace(badT); }, "C11");
        if (made) {
          bool inc = made->size() >= 2;
          for (size_t i = 0; inc && i + 1 < made->size(); i++)
            if (!((*made)[i] < (*made)[i + 1])) inc = false;
          if (!inc)
            viol("C10", "grid-invariant/fail-grid-ctor",
                 std::string("a live grid holds points that are not strictly "
                             "increasing (defect kind ") +
                     std::to_string(defect) + " at position " +
                     std::to_string(pos) + " of " + gridStr(gridPts) + ")");
        }
        break;
      }
      default: {
        using namespace bspline::operators;
        if (a.getSupport().containsIntervals())
          expectGrid([&] { auto r = SplineOperator{x} * a; (void)r; });
      }
    }
    endStep();  // snapshot monitor: target and every bystander unchanged
  }

  void run(size_t steps) {
    init();
    beginStep("init");
    // everything was just created
    for (size_t o = 0; o <= MAXO; o++)
      for (size_t i = 0; i <= NSLOT; i++) wrote(o, i);
    endStep();
    for (size_t s = 0; s < steps; s++) {
      const size_t oa = g.below(MAXO + 1), ob = g.below(MAXO + 1);
      const unsigned roll = (unsigned)g.below(100);
      dispatchOrder<MAXO>(oa, [&](auto OA) {
        constexpr size_t A = OA.value;
        if (roll < 30) {
          dispatchOrder<MAXO>(ob, [&](auto OB) {
            stepBinary<A, OB.value>((int)g.below(5));
          });
        } else if (roll < 42) {
          stepScalar<A>((int)g.below(7));
        } else if (roll < 62) {
          stepLife<A>((int)g.below(11));
        } else if (roll < 68) {
          dispatchOrder<MAXO>(ob, [&](auto OB) {
            constexpr size_t Bo = OB.value;
            if constexpr (A < Bo)
              stepCrossAssign<A, Bo>();
            else if constexpr (Bo < A)
              stepCrossAssign<Bo, A>();
          });
        } else if (roll < 76) {
          stepOperator<A>((int)g.below(6));
        } else if (roll < 81) {
          stepLinComb<A>();
        } else if (roll < 88) {
          dispatchOrder<MAXO>(g.chance(1, 2) ? oa : ob, [&](auto OB) {
            stepPredicates<A, OB.value>();
          });
        } else if (roll < 91) {
          dispatchOrder<MAXO>(ob, [&](auto OB) { stepForms<A, OB.value>(); });
        } else if (roll < 93) {
          dispatchOrder<MAXO>(ob, [&](auto OB) { stepMigrate<A, OB.value>(); });
#ifdef VF_FAILPOINTS
        } else if (roll < 94) {
          dispatchOrder<MAXO>(ob, [&](auto OB) { stepAllocFault<A, OB.value>(); });
        } else if (roll < 96) {
          dispatchOrder<MAXO>(ob, [&](auto OB) {
            if constexpr (A + OB.value <= 2 * MAXO) stepAllocFaultPure<A, OB.value>();
          });
#endif
        } else {
          dispatchOrder<MAXO>(ob, [&](auto OB) {
            stepFailing<A, OB.value>((int)g.below(12));
          });
        }
      });
      tame();
    }
    c.count("histories");
    c.count("steps", steps);
    if (c.samples.size() < 3) c.sample("grid " + gridStr(gridPts) + ": " + trace);
  }
};

template <typename T>
void runCase(Ctx &c) {
  Machine<T> m(c);
  m.run((size_t)c.param("steps", 150));
}

}  // namespace

int main(int argc, char **argv) {
  return driverMain(argc, argv, "pool", ST<VT>::name(), runCase<VT>);
}
