// C20: the shipped example solvers are well-defined programs and solve their
// problems. Built from /repo/examples/*.cpp in the asan and dbgstl flavours
// (sanitizer / checked-STL reports are collected by the runner); the oracles
// below are metamorphic (solution against solution) and therefore independent
// of the discretisation error.
//   -DEX_DIFFUSION  : solveDiffusionSteadyState
//   -DEX_POTENTIAL  : interpolateFunction + solveSEWithSplinePotential
//   -DEX_FIXED      : solveHarmonicOscillator + solveRadialHydrogen
#include <cmath>

#include "core.h"

#if defined(EX_DIFFUSION)
#include <diffusion.h>
#elif defined(EX_POTENTIAL)
#include <spline-potential.h>
#else
#include <harmonic-oscillator.h>
#include <hydrogen.h>
#endif

using namespace vf;
using bspline::examples::data_t;

namespace {

std::string vecStr(const std::vector<data_t> &v) {
  std::string s = "[";
  for (size_t i = 0; i < v.size(); i++) {
    char b[40];
    snprintf(b, sizeof b, "%s%.17g", i ? "," : "", (double)v[i]);
    s += b;
  }
  return s + "]";
}

std::vector<data_t> genPoints(Rng &g, size_t n) {
  std::vector<data_t> p;
  const int shape = (int)g.below(6);
  data_t x = (data_t)g.range(-12, 8);
  if (shape == 2) x += 100;  // off-centre
  p.push_back(x);
  const size_t longAt = n > 2 ? 1 + g.below(n - 2) : 0;
  for (size_t i = 1; i < n; i++) {
    data_t w;
    switch (shape) {
      case 0:
        w = 0.5;
        break;
      case 3:  // two finely resolved layers bridged by one long element
        w = (i == longAt) ? 1.0 : 0.01;
        break;
      case 4:  // graded: each interval twice the previous one (bounded at 256x)
        w = 0.01 * std::pow(2.0, (double)std::min<size_t>(i, 8));
        break;
      case 5:  // alternating short / long
        w = (i % 2) ? 0.02 : 0.9;
        break;
      default:
        w = (data_t)g.range(1, 16) / 8.0;
    }
    x += w;
    p.push_back(x);
  }
  return p;
}

#if defined(EX_DIFFUSION)
void runCase(Ctx &c) {
  using namespace bspline::examples::diffusion;
  using bspline::support::Grid;
  using bspline::support::Support;
  Rng g = c.rng();
  // 2..40 points, small grids are where index ranges start to overlap
  static const size_t sizes[] = {2, 3, 4, 5, 6, 8, 10, 11, 12, 13, 14, 17, 21, 30, 40};
  const size_t n = sizes[c.caseId % 15];
  const std::vector<data_t> pts = genPoints(g, n);
  const bool constantD = (c.caseId / 15) % 3 == 0;
  std::vector<std::array<data_t, 1>> dv;
  const int jump = (int)g.below(3);
  for (size_t i = 0; i + 1 < n; i++) {
    data_t d = constantD ? 2.5 : (data_t)g.range(1, 64) / 8.0;
    if (!constantD && jump == 1 && i % 2) d *= 50;
    if (!constantD && jump == 2 && i % 3 == 0) d *= 1000;
    dv.push_back({d});
  }
  static const data_t bvals[] = {0, 1, -3, 10, 0.25, -7.5};
  const data_t start = bvals[g.below(6)], end = bvals[g.below(6)];
  const data_t scale = std::max<data_t>(1, std::max(std::fabs(start), std::fabs(end)));
  std::vector<data_t> dflat;
  for (auto &d : dv) dflat.push_back(d[0]);
  const std::string desc = "diffusion grid " + vecStr(pts) + " D " + vecStr(dflat) +
                           " start " + std::to_string((double)start) + " end " +
                           std::to_string((double)end);
  c.count("diffusion:solves");
  c.count("diffusion:points:" + std::to_string(n));
  c.count(constantD ? "diffusion:constant-D" : "diffusion:piecewise-D");
  if (end != 0) c.count("diffusion:nonzero-end-value");
  try {
    const Grid<data_t> grid{pts};
    const auto sup = Support<data_t>::createWholeGrid(grid);
    const DSpline D{sup, dv};
    const auto sol = solveDiffusionSteadyState(D, start, end);
    const data_t e1 = std::fabs(sol(pts.front()) - start) / scale;
    const data_t e2 = std::fabs(sol(pts.back()) - end) / scale;
    c.maxval("diffusion:boundary-error", (double)std::max(e1, e2));
    if (!(e1 <= 1e-9) || !(e2 <= 1e-9))
      c.violation("C20", "diffusion/boundary-values",
                  desc + ": c(front)=" + std::to_string((double)sol(pts.front())) +
                      " c(back)=" + std::to_string((double)sol(pts.back())));
    // raster: every grid point + 4 points per interval
    std::vector<data_t> xs;
    for (size_t i = 0; i + 1 < n; i++)
      for (int k = 0; k < 5; k++) xs.push_back(pts[i] + (pts[i + 1] - pts[i]) * k / 5);
    xs.push_back(pts.back());
    // invariance under scaling D by a positive constant
    for (data_t f : {(data_t)2, (data_t)3}) {
      std::vector<std::array<data_t, 1>> dv2 = dv;
      for (auto &d : dv2) d[0] *= f;
      const auto sol2 = solveDiffusionSteadyState(DSpline{sup, dv2}, start, end);
      data_t worst = 0;
      for (data_t x : xs) worst = std::max(worst, std::fabs(sol2(x) - sol(x)) / scale);
      c.maxval("diffusion:scaling-deviation", (double)worst);
      if (!(worst <= 1e-6))
        c.violation("C20", "diffusion/scaling-invariance",
                    desc + ": scaling D by " + std::to_string((double)f) +
                        " changes c by " + std::to_string((double)worst) + " * scale");
      c.count("diffusion:solves");
    }
    // linearity in the boundary values: c(s,e) = s*c(1,0) + e*c(0,1)
    {
      const auto c10 = solveDiffusionSteadyState(D, 1, 0);
      const auto c01 = solveDiffusionSteadyState(D, 0, 1);
      data_t worst = 0;
      for (data_t x : xs)
        worst = std::max(worst, std::fabs(sol(x) - (start * c10(x) + end * c01(x))) / scale);
      c.maxval("diffusion:linearity-deviation", (double)worst);
      if (!(worst <= 1e-6))
        c.violation("C20", "diffusion/linearity-in-boundary-values",
                    desc + ": c(s,e) deviates from s*c(1,0)+e*c(0,1) by " +
                        std::to_string((double)worst) + " * scale");
      c.count("diffusion:solves", 2);
    }
    // mirror image: reflected grid and coefficient, swapped boundary values
    {
      std::vector<data_t> mp;
      for (size_t i = n; i-- > 0;) mp.push_back(-pts[i]);
      std::vector<std::array<data_t, 1>> mdv(dv.rbegin(), dv.rend());
      const Grid<data_t> mg{mp};
      const auto msol = solveDiffusionSteadyState(
          DSpline{Support<data_t>::createWholeGrid(mg), mdv}, end, start);
      data_t worst = 0;
      for (data_t x : xs) worst = std::max(worst, std::fabs(msol(-x) - sol(x)) / scale);
      c.maxval("diffusion:mirror-deviation", (double)worst);
      if (!(worst <= 1e-5))
        c.violation("C20", "diffusion/mirror-symmetry",
                    desc + ": mirrored problem deviates by " +
                        std::to_string((double)worst) + " * scale");
      c.count("diffusion:solves");
    }
    if (constantD) {
      data_t worst = 0;
      for (data_t x : xs) {
        const data_t line = start + (end - start) * (x - pts.front()) / (pts.back() - pts.front());
        worst = std::max(worst, std::fabs(sol(x) - line) / scale);
      }
      c.maxval("diffusion:straight-line-deviation", (double)worst);
      if (!(worst <= 1e-8))
        c.violation("C20", "diffusion/straight-line",
                    desc + ": deviation from the straight line " +
                        std::to_string((double)worst) + " * scale");
      c.count("diffusion:straight-line-checked");
    }
    if (n >= 4 && c.caseId % 4 == 1) {
      // coefficient on a window of the grid: refusing with the library's
      // exception is a defined outcome, anything else must be a solution
      std::vector<std::array<data_t, 1>> wdv(dv.begin() + 1, dv.end());
      try {
        const auto wsol = solveDiffusionSteadyState(
            DSpline{Support<data_t>(grid, 1, n), wdv}, start, end);
        if (!(std::fabs(wsol(pts[1]) - start) / scale <= 1e-9) ||
            !(std::fabs(wsol(pts.back()) - end) / scale <= 1e-9))
          c.violation("C20", "diffusion/window-coefficient-wrong-boundary-values", desc);
        c.count("diffusion:window-coefficient-solved");
      } catch (const bspline::exceptions::BSplineException &) {
        c.count("diffusion:window-coefficient-refused");
      }
    }
    Hasher h;
    h.s(desc);
    c.nontrivial(h.h);
    c.sample(desc, 2);
  } catch (const bspline::exceptions::BSplineException &e) {
    c.violation("C20", "diffusion/refuses-admissible-input", desc + " threw " + e.what());
  } catch (const std::exception &e) {
    c.violation("C20", "diffusion/foreign-exception", desc + " threw " + e.what());
  }
}
#elif defined(EX_POTENTIAL)
void runCase(Ctx &c) {
  using namespace bspline::examples::spline_potential;
  using bspline::examples::PSpline;
  using bspline::support::Grid;
  using bspline::support::Support;
  Rng g = c.rng();
  static const size_t sizes[] = {21, 22, 25, 31, 40, 56};
  const size_t n = sizes[c.caseId % 6];
  std::vector<data_t> pts;
  const data_t half = (data_t)(n - 1) / 2;
  const data_t width = (data_t)g.range(2, 6) / 8.0;
  const bool uniform = g.chance(1, 2);
  const int kind = (int)((c.caseId / 6) % 4);
  // random cubic potentials also live on grids far from the origin
  const data_t centre = (kind >= 2 && g.chance(1, 2)) ? (data_t)g.range(-200, 200) : 0;
  data_t x = centre - half * width;
  for (size_t i = 0; i < n; i++) {
    pts.push_back(x);
    x += uniform ? width : width * (data_t)g.range(6, 10) / 8.0;
  }
  static const data_t shifts[] = {0.125, -0.5, 3, -5, 40, -1000, 2.5e4};
  const data_t shift = shifts[g.below(7)];
  if (centre != 0) c.count("potential:off-centre-grid");
  std::string desc = "potential kind " + std::to_string(kind) + " on " +
                     std::to_string(n) + " points " + vecStr(pts) + " shift " +
                     std::to_string((double)shift);
  c.count("potential:solves");
  c.count("potential:kind:" + std::to_string(kind));
  try {
    std::optional<PSpline> v;
    const Grid<data_t> *gridp = nullptr;
    std::optional<Grid<data_t>> ownGrid;
    if (kind == 0) {
      v.emplace(interpolateFunction(pts, [](data_t t) { return t * t / 2; }));
      c.count("potential:interpolated");
    } else if (kind == 1) {
      v.emplace(interpolateFunction(pts, [](data_t t) {
        return std::cosh(t / 4) - 1 + t * t * t * t / 50;
      }));
      c.count("potential:interpolated");
    } else {
      // random cubic pieces; kind 3: supported on the middle of the grid only
      ownGrid.emplace(pts);
      const size_t s = kind == 3 ? n / 4 : 0, e = kind == 3 ? n - n / 4 : n;
      std::vector<std::array<data_t, 4>> cs;
      for (size_t i = s; i + 1 < e; i++)
        cs.push_back({(data_t)g.range(-16, 16) / 4.0, (data_t)g.range(-8, 8) / 8.0,
                      (data_t)g.range(0, 8) / 8.0, (data_t)g.range(-4, 4) / 16.0});
      v.emplace(Support<data_t>(*ownGrid, s, e), cs);
      c.count(kind == 3 ? "potential:partial-support" : "potential:random-whole-grid");
    }
    gridp = &v->getSupport().getGrid();
    const auto base = solveSEWithSplinePotential(*v);
    // v + c on the whole grid
    std::vector<std::array<data_t, 4>> ones(n - 1, {shift, 0, 0, 0});
    const PSpline constant{Support<data_t>::createWholeGrid(*gridp), ones};
    const auto shifted = solveSEWithSplinePotential(*v + constant);
    if (base.size() != 10 || shifted.size() != 10) {
      c.violation("C20", "potential/state-count", desc);
      return;
    }
    data_t worst = 0;
    for (size_t i = 0; i < 10; i++) {
      const data_t dev = std::fabs(shifted[i].energy - (base[i].energy + shift)) /
                         (1 + std::fabs(base[i].energy) + std::fabs(shift));
      worst = std::max(worst, dev);
      if (i && !(base[i].energy >= base[i - 1].energy))
        c.violation("C20", "potential/eigenvalues-not-ascending", desc);
    }
    c.maxval("potential:shift-deviation", (double)worst);
    if (!(worst <= 1e-9))
      c.violation("C20", "potential/eigenvalue-shift",
                  desc + ": eigenvalues of v+c deviate from eigenvalues of v plus c by " +
                      std::to_string((double)worst) + " (relative)");
    c.count("potential:shift-checked");
    // harmonic potential on a wide enough uniform domain: the low states are
    // those of the oscillator (coarsely: the potential is only interpolated)
    if (kind == 0 && uniform && half * width >= 5) {
      data_t dev = 0;
      for (size_t i = 0; i < 3; i++)
        dev = std::max(dev, std::fabs(base[i].energy - ((data_t)i + 0.5)));
      c.maxval("potential:harmonic-low-states-deviation", (double)dev);
      if (!(dev <= 2e-2))
        c.violation("C20", "potential/harmonic-spectrum",
                    desc + ": lowest three eigenvalues deviate from n+1/2 by " +
                        std::to_string((double)dev));
      c.count("potential:harmonic-spectrum-compared");
    }
    // mirror image of a random cubic potential: same spectrum
    if (kind >= 2) {
      std::vector<data_t> mp;
      for (size_t i = n; i-- > 0;) mp.push_back(-pts[i]);
      const Grid<data_t> mg{mp};
      const size_t s0 = v->getSupport().getStartIndex(), e0 = v->getSupport().getEndIndex();
      std::vector<std::array<data_t, 4>> mcs;
      for (size_t j = v->getCoefficients().size(); j-- > 0;) {
        const auto &cj = v->getCoefficients()[j];
        mcs.push_back({cj[0], -cj[1], cj[2], -cj[3]});  // u -> -u about the midpoint
      }
      const PSpline mv{Support<data_t>(mg, n - e0, n - s0), mcs};
      const auto mir = solveSEWithSplinePotential(mv);
      data_t mw = 0;
      for (size_t i = 0; i < 10; i++)
        mw = std::max(mw, std::fabs(mir[i].energy - base[i].energy) /
                              (1 + std::fabs(base[i].energy)));
      c.maxval("potential:mirror-deviation", (double)mw);
      if (!(mw <= 1e-8))
        c.violation("C20", "potential/mirror-symmetry",
                    desc + ": spectrum of the mirrored potential deviates by " +
                        std::to_string((double)mw));
      c.count("potential:mirror-checked");
    }
    Hasher h;
    h.s(desc);
    c.nontrivial(h.h);
    c.sample(desc + " lowest eigenvalue " + std::to_string((double)base[0].energy), 2);
  } catch (const bspline::exceptions::BSplineException &e) {
    c.violation("C20", "potential/refuses-admissible-input", desc + " threw " + e.what());
  } catch (const std::exception &e) {
    c.violation("C20", "potential/foreign-exception", desc + " threw " + e.what());
  }
}
#else
void runCase(Ctx &c) {
  // the two argument-free solvers, with the suite's own tolerances
  if (c.caseId % 2 == 0) {
    const auto es = bspline::examples::harmonic_oscillator::solveHarmonicOscillator();
    data_t worst = 0;
    for (size_t i = 0; i < es.size(); i++) {
      const data_t a = (data_t)(2 * i + 1) / 2;
      worst = std::max(worst, std::fabs((es[i].energy - a) / a));
    }
    c.maxval("harmonic-oscillator:relative-error", (double)worst);
    if (es.empty() || !(worst <= 1e-12))
      c.violation("C20", "harmonic-oscillator/eigenvalues",
                  "relative deviation from n+1/2: " + std::to_string((double)worst));
    c.count("harmonic-oscillator:solves");
    Hasher h;
    h.s("ho");
    c.nontrivial(h.h);
    c.sample("harmonic oscillator: " + std::to_string(es.size()) + " states", 1);
  } else {
    using bspline::examples::hydrogen::L;
    const auto es = bspline::examples::hydrogen::solveRadialHydrogen();
    data_t worst = 0;
    for (size_t i = 0; i < es.size(); i++) {
      const size_t n = i + L + 1;
      const data_t a = (data_t)-1 / (data_t)(n * n);
      worst = std::max(worst, std::fabs((es[i].energy - a) / a));
    }
    c.maxval("hydrogen:relative-error", (double)worst);
    if (es.empty() || !(worst <= 5e-12))
      c.violation("C20", "hydrogen/eigenvalues",
                  "relative deviation from -1/n^2: " + std::to_string((double)worst));
    c.count("hydrogen:solves");
    Hasher h;
    h.s("hy");
    c.nontrivial(h.h);
    c.sample("radial hydrogen: " + std::to_string(es.size()) + " states", 2);
  }
}
#endif

}  // namespace

int main(int argc, char **argv) {
  return driverMain(argc, argv, "examples", "d", runCase);
}
