// Driver framework: deterministic PRNG, scalar traits, JSON-lines event log,
// coverage accounting, progress side channel, crash markers, main().
#ifndef VERIF_CORE_H
#define VERIF_CORE_H

#include <fcntl.h>
#include <signal.h>
#include <sys/mman.h>
#include <unistd.h>

#include <cmath>
#include <cstdint>
#include <cstdio>
#include <cstdlib>
#include <cstring>
#include <functional>
#include <limits>
#include <map>
#include <string>
#include <unordered_set>
#include <vector>

#include "model.h"
#include "vq.h"

namespace vf {
using model::R;

// ------------------------------------------------------------------ PRNG
inline uint64_t splitmix(uint64_t &s) {
  uint64_t z = (s += 0x9E3779B97F4A7C15ull);
  z = (z ^ (z >> 30)) * 0xBF58476D1CE4E5B9ull;
  z = (z ^ (z >> 27)) * 0x94D049BB133111EBull;
  return z ^ (z >> 31);
}
inline uint64_t mix(uint64_t a, uint64_t b) {
  uint64_t s = a ^ (b * 0xD6E8FEB86659FD93ull + 0x2545F4914F6CDD1Dull);
  splitmix(s);
  return splitmix(s);
}
inline uint64_t hstr(const char *s) {
  uint64_t h = 1469598103934665603ull;
  for (; *s; s++) h = (h ^ (unsigned char)*s) * 1099511628211ull;
  return h;
}
struct Rng {
  uint64_t s;
  explicit Rng(uint64_t seed) : s(seed) {}
  uint64_t next() { return splitmix(s); }
  // uniform in [0,n)
  uint64_t below(uint64_t n) { return n ? next() % n : 0; }
  // uniform in [a,b]
  int64_t range(int64_t a, int64_t b) {
    return a + (int64_t)below((uint64_t)(b - a + 1));
  }
  bool chance(unsigned num, unsigned den) { return below(den) < num; }
  template <typename V>
  const V &pick(const std::vector<V> &v) {
    return v[below(v.size())];
  }
};

// 64-bit content hash accumulator for "distinct non-trivial case" accounting
struct Hasher {
  uint64_t h = 0x1234567887654321ull;
  void u(uint64_t x) { h = mix(h, x); }
  void r(const R &x) {
    std::string s = model::rstr(x);
    u(hstr(s.c_str()));
  }
  void s(const std::string &x) { u(hstr(x.c_str())); }
};

// ------------------------------------------------------------ scalar traits
template <typename T>
struct ST;

template <>
struct ST<vq::Q> {
  static constexpr bool exact = true;
  static const char *name() { return "Q"; }
  static R toR(const vq::Q &q) { return vq::peek(q); }
  static vq::Q fromR(const R &r) { return vq::make(r); }
  static double eps() { return 0.0; }
  static bool finite(const vq::Q &) { return true; }
};

template <typename F>
struct STF {
  static constexpr bool exact = false;
  static bool finite(const F &x) { return std::isfinite(x); }
  static double eps() { return (double)std::numeric_limits<F>::epsilon(); }
  // bit-exact rational image of a finite floating value
  static R toR(const F &x) {
    if (x == 0) return R(0);
    int e = 0;
    long double m = std::frexp((long double)x, &e);  // x = m * 2^e, .5<=|m|<1
    const bool neg = m < 0;
    if (neg) m = -m;
    m = std::ldexp(m, 64);
    e -= 64;
    const long double two32 = 4294967296.0L;
    const uint64_t hi = (uint64_t)(m / two32);
    const uint64_t lo = (uint64_t)(m - (long double)hi * two32);
    vq::Z z = (vq::Z(hi) << 32) + vq::Z(lo);
    R r(z);
    if (e >= 0)
      r *= R(vq::Z(1) << (unsigned)e);
    else
      r /= R(vq::Z(1) << (unsigned)(-e));
    return neg ? R(-r) : r;
  }
  // only for values that are exactly representable (checked)
  static F fromR(const R &r) {
    const vq::Z n = boost::multiprecision::numerator(r);
    const vq::Z d = boost::multiprecision::denominator(r);
    const F v = (F)(n.convert_to<long double>() / d.convert_to<long double>());
    if (toR(v) != r) {
      fprintf(stderr, "VF-HARNESS-ERROR value %s not representable in %s\n",
              model::rstr(r).c_str(), typeid(F).name());
      _exit(3);
    }
    return v;
  }
};
template <>
struct ST<float> : STF<float> {
  static const char *name() { return "f"; }
};
template <>
struct ST<double> : STF<double> {
  static const char *name() { return "d"; }
};
template <>
struct ST<long double> : STF<long double> {
  static const char *name() { return "ld"; }
};

template <typename T>
inline T mk(const R &r) {
  return ST<T>::fromR(r);
}
template <typename T>
inline T mk(long num, long den = 1) {
  return ST<T>::fromR(R(num) / R(den));
}
template <typename T>
inline R toR(const T &x) {
  return ST<T>::toR(x);
}
inline double todouble(const R &r) { return r.convert_to<double>(); }

// -------------------------------------------------------------- JSON bits
inline std::string jesc(const std::string &s) {
  std::string o;
  o.reserve(s.size() + 2);
  for (unsigned char c : s) {
    if (c == '"' || c == '\\') {
      o += '\\';
      o += (char)c;
    } else if (c == '\n')
      o += "\\n";
    else if (c < 0x20) {
      char b[8];
      snprintf(b, sizeof b, "\\u%04x", c);
      o += b;
    } else
      o += (char)c;
  }
  return o;
}

// ----------------------------------------------------------------- context
struct Ctx {
  std::string driver, scalar, flavour;
  uint64_t seed = 1;
  uint64_t caseId = 0;
  std::map<std::string, std::string> params;
  FILE *out = nullptr;
  std::map<std::string, uint64_t> counters;
  std::map<std::string, double> maxv;
  std::unordered_set<uint64_t> hashes;
  std::vector<std::string> samples;
  std::map<std::string, uint64_t> violKeys;
  uint64_t violations = 0;
  uint64_t cases = 0;
  // order-independent digest of result bit patterns (sum over cases), used to
  // compare two build configurations run on the same seed
  uint64_t digestSum = 0;
  bool haveDigest = false;
  void digest(uint64_t caseDigest) {
    digestSum += mix(caseId, caseDigest);
    haveDigest = true;
  }
  volatile uint64_t *progress = nullptr;

  Rng rng(uint64_t stream = 0) const {
    return Rng(mix(mix(mix(seed, hstr(driver.c_str())), caseId), stream));
  }
  void count(const std::string &k, uint64_t n = 1) { counters[k] += n; }
  void maxval(const std::string &k, double v) {
    auto it = maxv.find(k);
    if (it == maxv.end() || v > it->second) maxv[k] = v;
  }
  // distinct non-trivial cases: measured per process up to a cap (a lower
  // bound beyond it; the cap keeps the logs of exhaustive runs bounded)
  size_t hashCap = 60000;
  void nontrivial(uint64_t h) {
    if (hashes.size() < hashCap) hashes.insert(h);
  }
  void sample(const std::string &s, size_t cap = 3) {
    if (samples.size() < cap) samples.push_back(s);
  }
  long param(const char *k, long dflt) const {
    auto it = params.find(k);
    return it == params.end() ? dflt : atol(it->second.c_str());
  }
  // prop: property id; key: stable violation key; detail: human readable
  void violation(const char *prop, const std::string &key,
                 const std::string &detail) {
    violations++;
    const std::string full = std::string(prop) + "/" + key;
    uint64_t &n = violKeys[full];
    n++;
    if (n <= 3 && out) {
      fprintf(out,
              "{\"t\":\"viol\",\"prop\":\"%s\",\"key\":\"%s\",\"driver\":\"%s\","
              "\"scalar\":\"%s\",\"flavour\":\"%s\",\"seed\":%llu,\"case\":%llu,"
              "\"detail\":\"%s\"}\n",
              prop, jesc(full).c_str(), driver.c_str(), scalar.c_str(),
              flavour.c_str(), (unsigned long long)seed,
              (unsigned long long)caseId, jesc(detail).c_str());
      fflush(out);
    }
  }
  void writeSummary(const char *kind) {
    if (!out) return;
    fprintf(out,
            "{\"t\":\"%s\",\"driver\":\"%s\",\"scalar\":\"%s\",\"flavour\":\"%s\","
            "\"seed\":%llu,\"cases\":%llu,\"violations\":%llu,\"counters\":{",
            kind, driver.c_str(), scalar.c_str(), flavour.c_str(),
            (unsigned long long)seed, (unsigned long long)cases,
            (unsigned long long)violations);
    bool first = true;
    for (auto &kv : counters) {
      fprintf(out, "%s\"%s\":%llu", first ? "" : ",", jesc(kv.first).c_str(),
              (unsigned long long)kv.second);
      first = false;
    }
    fprintf(out, "},\"max\":{");
    first = true;
    for (auto &kv : maxv) {
      fprintf(out, "%s\"%s\":%.6g", first ? "" : ",", jesc(kv.first).c_str(),
              kv.second);
      first = false;
    }
    fprintf(out, "},\"violkeys\":{");
    first = true;
    for (auto &kv : violKeys) {
      fprintf(out, "%s\"%s\":%llu", first ? "" : ",", jesc(kv.first).c_str(),
              (unsigned long long)kv.second);
      first = false;
    }
    fprintf(out, "},\"samples\":[");
    first = true;
    for (auto &s : samples) {
      fprintf(out, "%s\"%s\"", first ? "" : ",", jesc(s).c_str());
      first = false;
    }
    if (haveDigest)
      fprintf(out, "],\"digest\":\"%016llx\",\"hashes\":[",
              (unsigned long long)digestSum);
    else
      fprintf(out, "],\"hashes\":[");
    first = true;
    for (auto h : hashes) {
      fprintf(out, "%s\"%llx\"", first ? "" : ",", (unsigned long long)h);
      first = false;
    }
    fprintf(out, "]}\n");
    fflush(out);
  }
};

// ------------------------------------------------------- crash side channel
inline volatile uint64_t *&g_progress() {
  static volatile uint64_t *p = nullptr;
  return p;
}
inline void crashMarker(int sig) {
  char buf[96];
  const uint64_t k = g_progress() ? g_progress()[0] : ~0ull;
  int n = snprintf(buf, sizeof buf, "\nVF-CRASH case=%llu sig=%d\n",
                   (unsigned long long)k, sig);
  if (n > 0) (void)!write(2, buf, (size_t)n);
}
inline void onSignal(int sig) {
  crashMarker(sig);
  signal(sig, SIG_DFL);
  raise(sig);
}
inline void onTerminate() {
  crashMarker(-1);
  signal(SIGABRT, SIG_DFL);
  abort();
}

using CaseFn = std::function<void(Ctx &)>;
using InitFn = std::function<void(Ctx &)>;

// Standard main for a driver. Arguments:
//   --seed S --cases N --shard i/n --from K --only K --out FILE
//   --progress FILE --flavour NAME --param k=v ...
inline int driverMain(int argc, char **argv, const char *driver,
                      const char *scalar, const CaseFn &fn,
                      const InitFn &fini = nullptr) {
  Ctx c;
  c.driver = driver;
  c.scalar = scalar;
  c.flavour = "plain";
  uint64_t ncases = 100, shard = 0, nshards = 1, from = 0;
  long only = -1;
  const char *outPath = nullptr, *progPath = nullptr;
  for (int i = 1; i < argc; i++) {
    auto arg = [&](const char *n) {
      return !strcmp(argv[i], n) && i + 1 < argc;
    };
    if (arg("--seed"))
      c.seed = strtoull(argv[++i], nullptr, 10);
    else if (arg("--cases"))
      ncases = strtoull(argv[++i], nullptr, 10);
    else if (arg("--from"))
      from = strtoull(argv[++i], nullptr, 10);
    else if (arg("--only"))
      only = atol(argv[++i]);
    else if (arg("--out"))
      outPath = argv[++i];
    else if (arg("--progress"))
      progPath = argv[++i];
    else if (arg("--flavour"))
      c.flavour = argv[++i];
    else if (arg("--shard")) {
      sscanf(argv[++i], "%llu/%llu", (unsigned long long *)&shard,
             (unsigned long long *)&nshards);
    } else if (arg("--param")) {
      std::string kv = argv[++i];
      auto p = kv.find('=');
      if (p != std::string::npos) c.params[kv.substr(0, p)] = kv.substr(p + 1);
    } else {
      fprintf(stderr, "unknown argument %s\n", argv[i]);
      return 2;
    }
  }
  c.out = outPath ? fopen(outPath, "a") : stdout;
  if (!c.out) {
    perror("open out");
    return 2;
  }
  static uint64_t localProgress[1];
  volatile uint64_t *prog = localProgress;
  if (progPath) {
    int fd = open(progPath, O_RDWR | O_CREAT, 0644);
    if (fd >= 0 && ftruncate(fd, 8) == 0) {
      void *m = mmap(nullptr, 8, PROT_READ | PROT_WRITE, MAP_SHARED, fd, 0);
      if (m != MAP_FAILED) prog = (volatile uint64_t *)m;
    }
  }
  g_progress() = prog;
  prog[0] = ~0ull;
  signal(SIGSEGV, onSignal);
  signal(SIGABRT, onSignal);
  signal(SIGFPE, onSignal);
  signal(SIGBUS, onSignal);
  signal(SIGILL, onSignal);
  std::set_terminate(onTerminate);

  auto runOne = [&](uint64_t k) {
    c.caseId = k;
    prog[0] = k;
    c.cases++;
    const uint64_t poisonBefore =
        vq::counts().poison.load(std::memory_order_relaxed);
    const uint64_t bigBefore = vq::counts().bigint.load(std::memory_order_relaxed);
    fn(c);
    const uint64_t bigAfter = vq::counts().bigint.load(std::memory_order_relaxed);
    if (bigAfter != bigBefore)
      c.violation("C19", std::string("integer-beyond-int/") + driver,
                  "the scalar type was constructed " +
                      std::to_string(bigAfter - bigBefore) +
                      " time(s) from an integer value that does not fit an int; "
                      "the documented requirement is static_cast<T>(int)");
    const uint64_t poisonAfter =
        vq::counts().poison.load(std::memory_order_relaxed);
    if (poisonAfter != poisonBefore)
      c.violation("C19", std::string("indeterminate-value-read/") + driver,
                  "a default-constructed (indeterminate) scalar was read " +
                      std::to_string(poisonAfter - poisonBefore) +
                      " time(s) during this case: the code relies on T() "
                      "being zero");
  };
  if (only >= 0) {
    runOne((uint64_t)only);
  } else {
    for (uint64_t k = from; k < ncases; k++) {
      if (k % nshards != shard) continue;
      runOne(k);
    }
  }
  prog[0] = ~0ull - 1;  // finished
  if (fini) fini(c);
#ifndef VQ_NO_COUNT
  {
    // operations the archetype scalar was asked to perform (evidence for C19)
    auto &k = vq::counts();
    const std::pair<const char *, uint64_t> ops[] = {
        {"vq:from-integer", k.from_int.load()}, {"vq:add", k.add.load()},
        {"vq:sub", k.sub.load()},               {"vq:mul", k.mul.load()},
        {"vq:div", k.div.load()},               {"vq:neg", k.neg.load()},
        {"vq:compare", k.cmp.load()}};
    for (const auto &o : ops)
      if (o.second) c.counters[o.first] += o.second;
  }
#endif
  c.writeSummary("summary");
  if (c.out != stdout) fclose(c.out);
  return 0;
}

}  // namespace vf

// ASan calls this weak hook right before it prints its report (one TU per
// binary, so a plain definition is fine).
#if defined(__SANITIZE_ADDRESS__)
#define VF_HAVE_ASAN 1
#elif defined(__has_feature)
#if __has_feature(address_sanitizer)
#define VF_HAVE_ASAN 1
#endif
#endif
#ifdef VF_HAVE_ASAN
extern "C" void __asan_on_error() { vf::crashMarker(-2); }
#endif

#endif
