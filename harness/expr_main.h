// Driver side of the generated operator-expression programs (C05, C06, C07).
// A generated translation unit includes this header, defines one struct per
// expression (text, tags, make<T>(env) building the library expression from
// temporaries, model() building the ModelExpr mirror from the same AST) and
// the tuples gen::All / gen::Pairs, then calls exprMain<VT, gen::All,
// gen::Pairs>().
#ifndef VERIF_EXPR_MAIN_H
#define VERIF_EXPR_MAIN_H

#include <tuple>

#include "lib.h"
#include "mx.h"
#include "scalar.h"

#ifndef MAXIN
#define MAXIN 3
#endif

namespace ex {
using namespace vf;
using bspline::Spline;
using bspline::exceptions::BSplineException;
using bspline::integration::BilinearForm;
using bspline::integration::LinearForm;
using bspline::integration::ScalarProduct;
using bspline::support::Grid;
using bspline::support::Support;

constexpr size_t NSC = 4;  // run-time scalars of type T per case

template <typename T>
struct Env {
  std::array<T, NSC> sc;
  Spline<T, 0> f0;
  Spline<T, 1> f1;
  Spline<T, 2> f2;
};

// everything a case needs that does not depend on the expression
template <typename T>
struct Scene {
  std::vector<R> pts;
  std::optional<Grid<T>> grid, twin;
  std::optional<Env<T>> env;
  std::vector<R> scR;
  Den fden[3];
  AbsM fabs[3];
  Win fwin[3];
  bool dyadic;
  size_t n() const { return pts.size(); }
};

// a window for a factor relative to the operand window wa
inline Win factorWin(Rng &g, size_t n, const Win &wa, const char **name) {
  const int st = (int)g.below(8);
  auto rnd = [&](size_t lo, size_t hi) {
    return (size_t)g.range((int64_t)lo, (int64_t)hi);
  };
  switch (st) {
    case 0:
      *name = "whole-grid";
      return Win{0, n};
    case 1:
      *name = "empty";
      return Win{0, 0};
    case 2: {
      *name = "point-like";
      const size_t p = rnd(0, n - 1);
      return Win{p, p + 1};
    }
    case 3:
      if (wa.nint() >= 2) {
        // ends strictly inside the operand's support
        *name = "ends-inside-operand";
        const size_t e = rnd(wa.start + 2, wa.end - 1);  // exclusive end
        const size_t s = rnd(0, e - 2);
        return Win{s, e};
      }
      [[fallthrough]];
    case 4:
      if (wa.nint() >= 2) {
        *name = "starts-inside-operand";
        const size_t s = rnd(wa.start + 1, wa.end - 2);
        const size_t e = rnd(s + 2, n);
        return Win{s, e};
      }
      [[fallthrough]];
    case 5:
      if (!wa.empty()) {
        *name = "same-window";
        return wa;
      }
      [[fallthrough]];
    default:
      *name = "random";
      return genWin(g, n);
  }
}

template <typename T>
void buildScene(Scene<T> &sc, Ctx &c, Rng &g, const Win &operandWin,
                size_t npts) {
  sc.dyadic = !ST<T>::exact;
  (void)npts;
  sc.twin.emplace(mkVec<T>(sc.pts));
  std::array<T, NSC> s;
  sc.scR.clear();
  for (size_t i = 0; i < NSC; i++) {
    R v = genScalar(g, sc.dyadic);
    sc.scR.push_back(v);
    s[i] = mk<T>(v);
  }
  const char *nm[3];
  for (int k = 0; k < 3; k++) sc.fwin[k] = factorWin(g, sc.n(), operandWin, &nm[k]);
  auto gridFor = [&]() -> const Grid<T> & {
    return g.chance(1, 3) ? *sc.twin : *sc.grid;
  };
  sc.env.emplace(Env<T>{
      s,
      mkSpline<T, 0>(gridFor(), sc.fwin[0].start, sc.fwin[0].end,
                     genCoefM(g, sc.dyadic, sc.fwin[0].nint(), 0)),
      mkSpline<T, 1>(gridFor(), sc.fwin[1].start, sc.fwin[1].end,
                     genCoefM(g, sc.dyadic, sc.fwin[1].nint(), 1)),
      mkSpline<T, 2>(gridFor(), sc.fwin[2].start, sc.fwin[2].end,
                     genCoefM(g, sc.dyadic, sc.fwin[2].nint(), 2))});
  sc.fden[0] = denote(sc.env->f0);
  sc.fden[1] = denote(sc.env->f1);
  sc.fden[2] = denote(sc.env->f2);
  sc.fabs[0] = absOf(sc.env->f0);
  sc.fabs[1] = absOf(sc.env->f1);
  sc.fabs[2] = absOf(sc.env->f2);
  for (int k = 0; k < 3; k++) c.count(std::string("factor-window:") + nm[k]);
}

template <typename T>
mx::Cx cxFor(const Scene<T> &sc, size_t interval) {
  mx::Cx cx;
  cx.interval = interval;
  cx.grid = &sc.pts;
  cx.tscalars = sc.scR;
  for (int k = 0; k < 3; k++) {
    cx.factorExact.push_back(&sc.fden[k].pc);
    cx.factorAbs.push_back(&sc.fabs[k]);
  }
  return cx;
}

template <typename T>
std::string sceneStr(const Scene<T> &sc) {
  std::string s = "grid " + gridStr(sc.pts) + " sc=[";
  for (size_t i = 0; i < sc.scR.size(); i++)
    s += (i ? "," : "") + model::rstr(sc.scR[i]);
  s += "] f0=" + splineStr(sc.env->f0) + " f1=" + splineStr(sc.env->f1) +
       " f2=" + splineStr(sc.env->f2);
  return s;
}

// E applied to the polynomial pieces of `a`: exact global pieces + abs scale
template <typename T, size_t o>
void modelApply(const mx::Node &e, const Scene<T> &sc, const Spline<T, o> &a,
                Den &outExact, AbsM &outAbs) {
  const Den da = denote(a);
  const AbsM aa = absOf(a);
  outExact = model::dzero(sc.pts);
  outAbs.assign(sc.pts.size() - 1, Poly{});
  const size_t st = a.getSupport().getStartIndex();
  const size_t ni = a.getSupport().numberOfIntervals();
  for (size_t k = st; k < st + ni; k++) {
    mx::Cx cx = cxFor(sc, k);
    outExact.pc[k] = mx::applyExact(e, da.pc[k], cx);
    outAbs[k] = mx::applyAbs(e, aa[k], cx);
  }
}

// integral over [-h,h] of sum_j S_j |u|^j  (abs midpoint coefficients)
inline R absIntegral(const Poly &S, const R &h) {
  R r(0), hp = h;
  for (size_t j = 0; j < S.size(); j++) {
    r += S[j] * 2 * hp / R(j + 1);
    hp *= h;
  }
  return r;
}

// ------------------------------------------------------------------ apply
template <typename T, typename E, size_t o>
void caseApply(Ctx &c, Rng &g) {
  Scene<T> sc;
  sc.pts = genGrid(g, !ST<T>::exact, 3, 9);
  sc.grid.emplace(mkVec<T>(sc.pts));
  Win wa;
  switch ((int)g.below(8)) {
    case 0:
      wa = Win{0, 0};
      break;
    case 1: {
      const size_t p = g.below(sc.n());
      wa = Win{p, p + 1};
      break;
    }
    case 2:
      wa = Win{0, sc.n()};
      break;
    default:
      wa = genWin(g, sc.n());
  }
  buildScene(sc, c, g, wa, sc.n());
  const Spline<T, o> a = mkSpline<T, o>(
      *sc.grid, wa.start, wa.end, genCoefM(g, sc.dyadic, wa.nint(), o));
  const mx::P m = E::model();
  const std::string desc = std::string("E = ") + E::text + " applied to " +
                           splineStr(a) + " | " + sceneStr(sc);
  c.count("apply");
  c.count(std::string("apply:order") + std::to_string(o));
  try {
    auto res = E::template make<T>(*sc.env) * a;
    Den ex;
    AbsM sa;
    modelApply(*m, sc, a, ex, sa);
    Verdict v = agreeSpline(res, ex, ST<T>::exact ? nullptr : &sa);
    if constexpr (!ST<T>::exact) c.maxval("ratio:apply", v.ratio);
    if (!v.ok) {
      c.violation("C05", std::string("apply/") + E::text + "/" + E::tags,
                  desc + " -> " + splineStr(res) + ": " + v.why);
      if constexpr (!ST<T>::exact)
        c.violation("C16", std::string("expr-apply/") + E::text, v.why);
    }
    if (res.getSupport().getStartIndex() != wa.start ||
        res.getSupport().getEndIndex() != wa.end)
      c.violation("C05", std::string("window/") + E::text,
                  desc + " -> " + splineStr(res));
    // A long-lived operator object: the expression built in an earlier case is
    // kept alive together with its operand and applied again now, after the
    // grids and splines of many other cases have come and gone.
    {
      using OpT = std::decay_t<decltype(E::template make<T>(*sc.env))>;
      struct Kept {
        OpT op;
        Spline<T, o> operand;
        Den expected;
        AbsM scale;
        std::string what;
      };
      static std::optional<Kept> kept;
      if (kept) {
        auto again = kept->op * kept->operand;
        Verdict v2 = agreeSpline(again, kept->expected,
                                 ST<T>::exact ? nullptr : &kept->scale);
        if (!v2.ok)
          c.violation("C05", std::string("long-lived-operator/") + E::text,
                      "an operator object built in an earlier case gives a "
                      "different result now: " + kept->what + ": " + v2.why);
        c.count("apply:long-lived-operator");
      }
      if (c.caseId % 3 == 0 || !kept) {
        kept.reset();
        kept.emplace(Kept{E::template make<T>(*sc.env), a, ex, sa, desc});
      }
    }
    if (!model::dzerop(ex)) {
      Hasher h;
      h.s(desc);
      c.nontrivial(h.h);
      if (c.caseId % 97 < 3) c.sample(desc + " -> " + splineStr(res), 2);
    }
  } catch (const BSplineException &e) {
    c.violation("C05", std::string("unexpected-throw/") + E::text,
                desc + " threw " + e.what());
  } catch (const std::exception &e) {
    c.violation("C05", std::string("foreign-exception/") + E::text,
                desc + " threw " + e.what());
  }
}

// ------------------------------------------------------------- linear form
template <typename T, typename E, size_t o>
void caseLinear(Ctx &c, Rng &g) {
  Scene<T> sc;
  sc.pts = genGrid(g, !ST<T>::exact, 3, 9);
  sc.grid.emplace(mkVec<T>(sc.pts));
  Win wa;
  switch ((int)g.below(8)) {
    case 0:
      wa = Win{0, 0};
      break;
    case 1: {
      const size_t p = g.below(sc.n());
      wa = Win{p, p + 1};
      break;
    }
    default:
      wa = genWin(g, sc.n());
  }
  buildScene(sc, c, g, wa, sc.n());
  const Spline<T, o> a = mkSpline<T, o>(
      *sc.grid, wa.start, wa.end, genCoefM(g, sc.dyadic, wa.nint(), o));
  const mx::P m = E::model();
  const std::string desc = std::string("LinearForm{") + E::text + "} of " +
                           splineStr(a) + " | " + sceneStr(sc);
  c.count("linear");
  try {
    const T val = LinearForm{E::template make<T>(*sc.env)}(a);
    Den ex;
    AbsM sa;
    modelApply(*m, sc, a, ex, sa);
    R exact(0), S(0);
    for (size_t k = wa.start; k + 1 < wa.end; k++) {
      exact += model::pintegral(ex.pc[k], sc.pts[k], sc.pts[k + 1]);
      S += absIntegral(sa[k], (sc.pts[k + 1] - sc.pts[k]) / 2);
    }
    // output size parity of the kernel
    constexpr size_t outSize =
        std::decay_t<decltype(E::template make<T>(*sc.env))>::outputOrder(o) + 1;
    c.count(std::string("linear:outsize-parity:") + (outSize % 2 ? "odd" : "even"));
    c.count("linear:outsize:" + std::to_string(outSize));
    Verdict v = agreeScalar(val, exact, S);
    if constexpr (!ST<T>::exact) c.maxval("ratio:linear", v.ratio);
    if (!v.ok) {
      c.violation("C07", std::string("linear/") + E::text + "/" + E::tags,
                  desc + ": " + v.why);
      if constexpr (!ST<T>::exact)
        c.violation("C16", std::string("expr-linear/") + E::text, v.why);
    }
    if (wa.nint() == 0) {
      if (!(toR<T>(val) == 0))
        c.violation("C07", "nonzero-for-interval-free", desc);
      c.count("linear:interval-free");
    }
    // library against library: LinearForm{E}(a) == LinearForm{}(E*a)
    if constexpr (ST<T>::exact) {
      const T viaApply = LinearForm{}(E::template make<T>(*sc.env) * a);
      if (!(viaApply == val))
        c.violation("C07", std::string("linear-vs-apply/") + E::text, desc);
      c.count("linear:vs-apply");
    }
    if (exact != 0) {
      Hasher h;
      h.s(desc);
      c.nontrivial(h.h);
    }
    c.sample(desc + " = " + model::rstr(toR<T>(val)), 4);
  } catch (const BSplineException &e) {
    c.violation("C07", std::string("unexpected-throw/") + E::text,
                desc + " threw " + e.what());
  } catch (const std::exception &e) {
    c.violation("C07", std::string("foreign-exception/") + E::text,
                desc + " threw " + e.what());
  }
}

// ----------------------------------------------------------- bilinear form
template <typename T, typename E1, typename E2, size_t oa, size_t ob>
void caseBilinear(Ctx &c, Rng &g, uint64_t stratum) {
  Scene<T> sc;
  sc.pts = genGrid(g, !ST<T>::exact, PLACEMENT_MIN_POINTS, 10);
  sc.grid.emplace(mkVec<T>(sc.pts));
  // overlapping placements twice as often as the ones without a common
  // interval
  static const int table[] = {P_EQ, P_A_IN_B, P_B_IN_A, P_PARTIAL_L,
                              P_PARTIAL_R, P_TOUCH, P_GAP, P_A_EMPTY,
                              P_EQ, P_A_IN_B, P_B_IN_A, P_PARTIAL_L,
                              P_PARTIAL_R, P_B_EMPTY, P_BOTH_EMPTY, P_A_POINT,
                              P_B_POINT};
  const int pl = table[stratum % 17];
  const auto pr = genPlacement(g, sc.n(), pl);
  const Win wa = pr.first, wb = pr.second;
  buildScene(sc, c, g, wa, sc.n());
  const Spline<T, oa> a =
      mkSpline<T, oa>(g.chance(1, 3) ? *sc.twin : *sc.grid, wa.start, wa.end,
                      genCoefM(g, sc.dyadic, wa.nint(), oa));
  const Spline<T, ob> b =
      mkSpline<T, ob>(g.chance(1, 3) ? *sc.twin : *sc.grid, wb.start, wb.end,
                      genCoefM(g, sc.dyadic, wb.nint(), ob));
  const mx::P m1 = E1::model(), m2 = E2::model();
  const std::string desc = std::string("BilinearForm{") + E1::text + " , " +
                           E2::text + "}(a,b) a=" + splineStr(a) +
                           " b=" + splineStr(b) + " | " + sceneStr(sc);
  c.count("bilinear");
  c.count(std::string("bilinear:place:") + placementName(pl));
  c.count("bilinear:orders:" + std::to_string(oa) + "," + std::to_string(ob));
  try {
    const T val = BilinearForm{E1::template make<T>(*sc.env),
                               E2::template make<T>(*sc.env)}(a, b);
    Den ea, eb;
    AbsM sa, sb;
    modelApply(*m1, sc, a, ea, sa);
    modelApply(*m2, sc, b, eb, sb);
    const size_t lo = std::max(wa.start, wb.start),
                 hi = std::min(wa.end, wb.end);
    R exact(0), S(0);
    size_t common = 0;
    if (!wa.empty() && !wb.empty())
      for (size_t k = lo; k + 1 < hi; k++) {
        exact += model::pintegral(model::pmul(ea.pc[k], eb.pc[k]), sc.pts[k],
                                  sc.pts[k + 1]);
        S += absIntegral(model::pmul(sa[k], sb[k]),
                         (sc.pts[k + 1] - sc.pts[k]) / 2);
        common++;
      }
    constexpr size_t s1 =
        std::decay_t<decltype(E1::template make<T>(*sc.env))>::outputOrder(oa) + 1;
    constexpr size_t s2 =
        std::decay_t<decltype(E2::template make<T>(*sc.env))>::outputOrder(ob) + 1;
    c.count(std::string("bilinear:parity:") + (s1 % 2 ? "odd" : "even") + "x" +
            (s2 % 2 ? "odd" : "even"));
    Verdict v = agreeScalar(val, exact, S);
    if constexpr (!ST<T>::exact) c.maxval("ratio:bilinear", v.ratio);
    if (!v.ok) {
      c.violation("C06",
                  std::string("bilinear/") + E1::text + " , " + E2::text,
                  desc + ": " + v.why);
      if constexpr (!ST<T>::exact)
        c.violation("C16", std::string("expr-bilinear/") + E1::text, v.why);
    }
    if (common == 0) {
      if (!(toR<T>(val) == 0))
        c.violation("C06", "nonzero-without-common-interval", desc);
      c.count("bilinear:no-common-interval");
    }
    if constexpr (ST<T>::exact) {
      // swap symmetry
      const T sw = BilinearForm{E2::template make<T>(*sc.env),
                                E1::template make<T>(*sc.env)}(b, a);
      if (!(sw == val))
        c.violation("C06", std::string("swap/") + E1::text + " , " + E2::text,
                    desc);
      // C07: bilinear form == identity linear form of the product spline
      const T viaProduct = LinearForm{}((E1::template make<T>(*sc.env) * a) *
                                        (E2::template make<T>(*sc.env) * b));
      if (!(viaProduct == val))
        c.violation("C07",
                    std::string("bilinear-vs-linear-of-product/") + E1::text +
                        " , " + E2::text,
                    desc + " bilinear=" + model::rstr(toR<T>(val)) +
                        " linear-of-product=" + model::rstr(toR<T>(viaProduct)));
      // identity on the left: BilinearForm{E2}(a,b), and the scalar product
      const T idLeft = BilinearForm{E2::template make<T>(*sc.env)}(a, b);
      Den ia = denote(a);
      R exId(0), exSp(0);
      const Den ib = denote(b);
      if (!wa.empty() && !wb.empty())
        for (size_t k = lo; k + 1 < hi; k++) {
          exId += model::pintegral(model::pmul(ia.pc[k], eb.pc[k]), sc.pts[k],
                                   sc.pts[k + 1]);
          exSp += model::pintegral(model::pmul(ia.pc[k], ib.pc[k]), sc.pts[k],
                                   sc.pts[k + 1]);
        }
      if (toR<T>(idLeft) != exId)
        c.violation("C06", std::string("identity-left/") + E2::text, desc);
      if (toR<T>(ScalarProduct{}(a, b)) != exSp ||
          toR<T>(BilinearForm{}(a, b)) != exSp)
        c.violation("C06", "scalar-product", desc);
      // linearity in the first argument: a' = a + t*a2
      const Win w2 = genWin(g, sc.n());
      const Spline<T, oa> a2 = mkSpline<T, oa>(
          *sc.grid, w2.start, w2.end, genCoefM(g, sc.dyadic, w2.nint(), oa));
      const T t = sc.env->sc[0];
      const T lhs = BilinearForm{E1::template make<T>(*sc.env),
                                 E2::template make<T>(*sc.env)}(a + t * a2, b);
      const T rhs = val + t * BilinearForm{E1::template make<T>(*sc.env),
                                           E2::template make<T>(*sc.env)}(a2, b);
      if (!(lhs == rhs))
        c.violation("C06", std::string("linearity/") + E1::text + " , " + E2::text,
                    desc);
      c.count("bilinear:metamorphic");
      // the SAME expression type on both sides, holding DIFFERENT state
      // (other run-time scalars and factor splines), applied to the very same
      // spline object: <E[env] a | E[env2] a>
      {
        Scene<T> sc2;
        sc2.pts = sc.pts;
        sc2.grid.emplace(mkVec<T>(sc2.pts));
        buildScene(sc2, c, g, wa, sc2.n());
        const T both = BilinearForm{E1::template make<T>(*sc.env),
                                    E1::template make<T>(*sc2.env)}(a, a);
        Den l, r;
        AbsM la, ra;
        modelApply(*m1, sc, a, l, la);
        modelApply(*m1, sc2, a, r, ra);
        R exSame(0);
        for (size_t k = wa.start; k + 1 < wa.end; k++)
          exSame += model::pintegral(model::pmul(l.pc[k], r.pc[k]), sc.pts[k],
                                     sc.pts[k + 1]);
        if (toR<T>(both) != exSame)
          c.violation("C06", std::string("same-type-different-state/") + E1::text,
                      desc + " second state: " + sceneStr(sc2) + " got " +
                          model::rstr(toR<T>(both)) + " expected " +
                          model::rstr(exSame));
        c.count("bilinear:same-type-different-state");
        // C07 through the library for the same call: the form equals the
        // identity linear form of the product of the two transformed splines
        const T viaProduct = LinearForm{}((E1::template make<T>(*sc.env) * a) *
                                          (E1::template make<T>(*sc2.env) * a));
        if (!(viaProduct == both))
          c.violation("C07",
                      std::string("bilinear-vs-linear-of-product/same-type-different-state/") +
                          E1::text,
                      desc + " second state: " + sceneStr(sc2) + " form " +
                          model::rstr(toR<T>(both)) + " linear form of the product " +
                          model::rstr(toR<T>(viaProduct)));
        c.count("linear:same-type-different-state");
      }
    }
    if (exact != 0) {
      Hasher h;
      h.s(desc);
      c.nontrivial(h.h);
    }
    c.sample(desc + " = " + model::rstr(toR<T>(val)), 6);
  } catch (const BSplineException &e) {
    c.violation("C06", std::string("unexpected-throw/") + E1::text + " , " +
                           E2::text,
                desc + " threw " + e.what());
  } catch (const std::exception &e) {
    c.violation("C06", std::string("foreign-exception/") + E1::text + " , " +
                           E2::text,
                desc + " threw " + e.what());
  }
}

// ------------------------------------------------------------- dispatching
template <typename T, typename All, size_t... I>
void dispatchExpr(size_t idx, size_t o, int ctxKind, Ctx &c, Rng &g,
                  std::index_sequence<I...>) {
  auto one = [&](auto tag) {
    using E = std::tuple_element_t<decltype(tag)::value, All>;
    dispatchOrder<MAXIN>(o, [&](auto O) {
      if (ctxKind == 0)
        caseApply<T, E, O.value>(c, g);
      else
        caseLinear<T, E, O.value>(c, g);
    });
  };
  (void)one;
  ((idx == I ? one(std::integral_constant<size_t, I>{}) : void()), ...);
}

template <typename T, typename Pair, size_t which>
void bilinearOrders(Ctx &c, Rng &g, uint64_t stratum) {
  using E1 = typename Pair::first_type;
  using E2 = typename Pair::second_type;
  // four order pairs per expression pair, chosen by the pair's position
  if constexpr (which % 4 == 0)
    caseBilinear<T, E1, E2, 0, 1>(c, g, stratum);
  else if constexpr (which % 4 == 1)
    caseBilinear<T, E1, E2, 2, 0>(c, g, stratum);
  else if constexpr (which % 4 == 2)
    caseBilinear<T, E1, E2, 1, 3>(c, g, stratum);
  else
    caseBilinear<T, E1, E2, 3, 2>(c, g, stratum);
}

template <typename T, typename Pairs, size_t... I>
void dispatchPair(size_t idx, uint64_t stratum, Ctx &c, Rng &g,
                  std::index_sequence<I...>) {
  ((idx == I
        ? bilinearOrders<T, std::tuple_element_t<I, Pairs>, I>(c, g, stratum)
        : void()),
   ...);
}

template <typename T, typename All, typename Pairs>
int exprMain(int argc, char **argv) {
  constexpr size_t NE = std::tuple_size_v<All>;
  constexpr size_t NP = std::tuple_size_v<Pairs>;
  auto fn = [&](Ctx &c) {
    Rng g = c.rng();
    const uint64_t k = c.caseId;
    const int ctxKind = (int)(k % 3);  // 0 apply, 1 linear, 2 bilinear
    const uint64_t r = k / 3;
    if (ctxKind == 2) {
      dispatchPair<T, Pairs>(r % NP, r / NP, c, g,
                             std::make_index_sequence<NP>{});
    } else {
      dispatchExpr<T, All>(r % NE, (r / NE) % (MAXIN + 1), ctxKind, c, g,
                           std::make_index_sequence<NE>{});
    }
  };
  return driverMain(argc, argv, "expr", ST<T>::name(), fn);
}

}  // namespace ex
#endif
