// C17: n-point Gauss-Legendre quadrature of m1*f*m2 equals the analytic
// bilinear form with f as operator whenever 2n-1 >= order1+order2+deg f, and
// extends over exactly the intervals common to both supports.
#include <bspline/integration/numerical.h>

#include "lib.h"
#include "scalar.h"

#ifndef MAXO
#define MAXO 4
#endif
#ifndef MAXN
#define MAXN 8
#endif

using namespace vf;
using bspline::Spline;
using bspline::exceptions::BSplineException;
using bspline::support::Grid;

namespace {

template <typename T>
struct Probe {
  std::array<T, 4> w;
  std::vector<T> *seen;
  T operator()(const T &x) const {
    seen->push_back(x);
    return w[0] + x * (w[1] + x * (w[2] + x * w[3]));
  }
};

template <typename T, size_t o1, size_t o2, size_t nq>
void quadCase(Ctx &c, Rng &g, size_t deg) {
  using namespace bspline::operators;
  using namespace bspline::integration;
  const std::vector<R> pts = genGrid(g, true, PLACEMENT_MIN_POINTS, 10);
  const size_t n = pts.size();
  const Grid<T> grid = mkGrid<T>(pts), twin = mkGrid<T>(pts);
  static const int table[] = {P_EQ, P_A_IN_B, P_B_IN_A, P_PARTIAL_L, P_PARTIAL_R,
                              P_TOUCH, P_GAP, P_A_EMPTY, P_EQ, P_A_IN_B,
                              P_B_IN_A, P_PARTIAL_L, P_PARTIAL_R, P_B_EMPTY,
                              P_BOTH_EMPTY, P_A_POINT, P_B_POINT};
  const int pl = table[(c.caseId / 3) % 17];
  const auto pr = genPlacement(g, n, pl);
  const Win wa = pr.first, wb = pr.second;
  const Spline<T, o1> m1 = mkSpline<T, o1>(
      grid, wa.start, wa.end, genCoefM(g, true, wa.nint(), o1));
  const Spline<T, o2> m2 = mkSpline<T, o2>(
      g.chance(1, 3) ? twin : grid, wb.start, wb.end,
      genCoefM(g, true, wb.nint(), o2));
  // polynomial weight of exact degree deg
  std::array<R, 4> wR{R(0), R(0), R(0), R(0)};
  for (size_t k = 0; k <= deg; k++) wR[k] = genCoef(g, true, 4);
  if (wR[deg] == 0) wR[deg] = R(1);
  std::array<T, 4> w;
  for (size_t k = 0; k < 4; k++) w[k] = mk<T>(wR[k]);
  const bool exactRule = 2 * nq >= o1 + o2 + deg + 1;  // 2n-1 >= o1+o2+d
  const std::string desc =
      "integrate<" + std::to_string(nq) + "> weight " +
      model::pstr(Poly(wR.begin(), wR.end())) + " grid " + gridStr(pts) +
      " m1=" + splineStr(m1) + " m2=" + splineStr(m2);
  c.count("calls");
  c.count(std::string("place:") + placementName(pl));
  c.count(exactRule ? "rule:exact" : "rule:below-exactness-bound");
  if (2 * nq == o1 + o2 + deg + 1 || 2 * nq == o1 + o2 + deg + 2)
    c.count("rule:at-the-bound");
  c.count("n:" + std::to_string(nq));
  c.count("orders:" + std::to_string(o1) + "," + std::to_string(o2));
  c.count("weight-degree:" + std::to_string(deg));
  try {
    std::vector<T> seen;
    const Probe<T> f{w, &seen};
    const T numeric = integrate<nq>(f, m1, m2);
    // --- where was the integrand sampled?
    const size_t lo = std::max(wa.start, wb.start), hi = std::min(wa.end, wb.end);
    const size_t common = (!wa.empty() && !wb.empty() && hi > lo && hi - lo >= 2)
                              ? hi - lo - 1 : 0;
    std::vector<size_t> per(n - 1, 0);
    bool stray = false;
    for (const T &x : seen) {
      const R xr = toR<T>(x);
      bool placed = false;
      for (size_t k = 0; k + 1 < n; k++)
        if (xr > pts[k] && xr < pts[k + 1]) {
          per[k]++;
          placed = true;
        }
      if (!placed) stray = true;
    }
    bool countsOk = !stray;
    for (size_t k = 0; k + 1 < n; k++) {
      const bool isCommon = common > 0 && k >= lo && k + 1 < hi;
      if (per[k] != (isCommon ? nq : 0)) countsOk = false;
    }
    if (!countsOk)
      c.violation("C17", "sampling-region/" + std::string(placementName(pl)),
                  desc + ": " + std::to_string(seen.size()) +
                      " abscissae seen, expected " + std::to_string(nq) +
                      " in each of the " + std::to_string(common) +
                      " common intervals and none elsewhere");
    else
      c.count("sampling-region-checked");
    if (common == 0) {
      if (!(numeric == (T)0))
        c.violation("C17", "nonzero-without-common-interval", desc);
      c.count("no-common-interval");
    }
    // weights whose return type is not T (constant weights, so that the
    // value is exact in every type): the result must be the same integral
    if (deg == 0 && exactRule) {
      const R w0 = R(3);
      R ex0(0), S0(0);
      const Den e1 = denote(m1), e2 = denote(m2);
      const AbsM b1 = absOf(m1), b2 = absOf(m2);
      for (size_t k = lo; common > 0 && k + 1 < hi; k++) {
        ex0 += w0 * model::pintegral(model::pmul(e1.pc[k], e2.pc[k]), pts[k], pts[k + 1]);
        const R h = (pts[k + 1] - pts[k]) / 2;
        S0 += 2 * h * w0 * hsum(b1[k], h) * hsum(b2[k], h);
      }
      auto chk = [&](const char *kind, const T &val, const R &factor) {
        Verdict v = agreeScalar(val, R(ex0 * factor / w0), R(S0 * rabs(factor) / w0 + (S0 == 0 ? R(0) : R(0))));
        if (!v.ok)
          c.violation("C17", std::string("weight-return-type/") + kind,
                      desc + " constant weight of type " + kind + ": " + v.why);
        c.count(std::string("weight-return-type:") + kind);
      };
      chk("int", integrate<nq>([](const T &) { return 3; }, m1, m2), R(3));
      chk("long", integrate<nq>([](const T &) { return -2L; }, m1, m2), R(-2));
      chk("bool", integrate<nq>([](const T &) { return true; }, m1, m2), R(1));
      chk("unsigned", integrate<nq>([](const T &) { return 5u; }, m1, m2), R(5));
      if constexpr (!std::is_same_v<T, float>)
        chk("float", integrate<nq>([](const T &) { return 0.5f; }, m1, m2), R(1) / 2);
      if constexpr (!std::is_same_v<T, double>)
        chk("double", integrate<nq>([](const T &) { return 0.25; }, m1, m2), R(1) / 4);
    }
    if (exactRule) {
      const T analytic =
          BilinearForm{w[0] * X<0>{} + w[1] * X<1>{} + w[2] * X<2>{} +
                       w[3] * X<3>{}}(m1, m2);
      // exact value and scale
      const Den d1 = denote(m1), d2 = denote(m2);
      const AbsM a1 = absOf(m1), a2 = absOf(m2);
      const Poly wp(wR.begin(), wR.end());
      R exact(0), S(0);
      for (size_t k = lo; common > 0 && k + 1 < hi; k++) {
        exact += model::pintegral(model::pmul(wp, model::pmul(d1.pc[k], d2.pc[k])),
                                  pts[k], pts[k + 1]);
        const R h = (pts[k + 1] - pts[k]) / 2;
        const R xmax = std::max(rabs(pts[k]), rabs(pts[k + 1]));
        S += 2 * h * hsum(pabs(wp), xmax) * hsum(a1[k], h) * hsum(a2[k], h);
      }
      Verdict v1 = agreeScalar(numeric, toR<T>(analytic), S);
      Verdict v2 = agreeScalar(numeric, exact, S);
      c.maxval("ratio:numeric-vs-analytic", v1.ratio);
      c.maxval("ratio:numeric-vs-exact", v2.ratio);
      if (!v1.ok)
        c.violation("C17", "numeric-vs-analytic/n" + std::to_string(nq),
                    desc + ": numeric " + std::to_string((long double)numeric) +
                        " analytic " + std::to_string((long double)analytic) +
                        " " + v1.why);
      else if (!v2.ok)
        c.violation("C17", "numeric-vs-exact/n" + std::to_string(nq),
                    desc + ": " + v2.why);
      else
        c.count("values-compared");
      if (exact != 0) {
        Hasher h;
        h.s(desc);
        c.nontrivial(h.h);
      }
    }
    c.sample(desc + " = " + std::to_string((long double)numeric), 3);
  } catch (const BSplineException &e) {
    c.violation("C17", "unexpected-throw", desc + " threw " + e.what());
  } catch (const std::exception &e) {
    c.violation("C17", "foreign-exception", desc + " threw " + e.what());
  }
}

// beyond the main catalogue: large quadrature sizes and orders 5, 6
template <typename T>
void wideCase(Ctx &c, Rng &g) {
  const size_t deg = (c.caseId / 96) % 4;
  switch ((c.caseId / 8) % 12) {
    case 0: quadCase<T, 5, 6, 9>(c, g, deg); break;
    case 1: quadCase<T, 6, 6, 9>(c, g, deg); break;    // 2n-1 = 17 >= 12+d
    case 2: quadCase<T, 6, 6, 7>(c, g, deg); break;    // at / below the bound
    case 3: quadCase<T, 0, 6, 10>(c, g, deg); break;
    case 4: quadCase<T, 6, 3, 12>(c, g, deg); break;
    case 5: quadCase<T, 5, 5, 16>(c, g, deg); break;
    case 6: quadCase<T, 2, 2, 20>(c, g, deg); break;
    case 7: quadCase<T, 4, 6, 32>(c, g, deg); break;
    case 8: quadCase<T, 6, 5, 8>(c, g, deg); break;
    case 9: quadCase<T, 1, 5, 11>(c, g, deg); break;
    case 10: quadCase<T, 3, 6, 13>(c, g, deg); break;
    default: quadCase<T, 6, 6, 15>(c, g, deg);
  }
  c.count("wide-catalogue");
}

template <typename T>
void runCase(Ctx &c) {
  Rng g = c.rng();
  if (c.caseId % 8 == 5) {
    wideCase<T>(c, g);
    return;
  }
  const uint64_t k = c.caseId;
  const size_t o1 = k % (MAXO + 1), o2 = (k / (MAXO + 1)) % (MAXO + 1);
  const size_t deg = (k / ((MAXO + 1) * (MAXO + 1))) % 4;
  // n on both sides of the exactness bound
  const size_t nmin = (o1 + o2 + deg + 2) / 2;  // smallest n with 2n-1 >= o1+o2+d
  size_t nq;
  switch ((k / ((MAXO + 1) * (MAXO + 1) * 4)) % 4) {
    case 0:
      nq = nmin > 1 ? nmin - 1 : 1;
      break;
    case 1:
      nq = nmin;
      break;
    case 2:
      nq = nmin + 1;
      break;
    default:
      nq = 2 * std::max<size_t>(1, std::max(o1, o2));
  }
  if (nq < 1) nq = 1;
  if (nq > MAXN) nq = MAXN;
  dispatchOrder<MAXO>(o1, [&](auto O1) {
    dispatchOrder<MAXO>(o2, [&](auto O2) {
      dispatchOrder<MAXN>(nq, [&](auto NQ) {
        if constexpr (NQ.value >= 1)
          quadCase<T, O1.value, O2.value, NQ.value>(c, g, deg);
      });
    });
  });
}

}  // namespace

int main(int argc, char **argv) {
  return driverMain(argc, argv, "quad", ST<VT>::name(), runCase<VT>);
}
