// C16: floating-point results stay at rounding level of the exact result on
// the well-scaled family (|grid point| <= 8, spacing >= 1/8, orders <= 6), and
// do not depend on whether the optional self-checks are compiled in.
// One compact driver touching every quantity the property names, at the edge
// of the admissible domain; compiled per (type, optimisation level,
// self-checks on/off). Every case also folds the bit patterns of all results
// into a digest that the check compares between the on/off builds.
#include "lib.h"
#include "mx.h"
#include "scalar.h"

#ifndef MAXP
#define MAXP 6
#endif

using namespace vf;
using bspline::Spline;
using bspline::support::Grid;

namespace {

struct Dg {
  uint64_t h = 0x243f6a8885a308d3ull;
  template <typename T>
  void val(const T &v) {
    unsigned char b[16] = {0};
    memcpy(b, &v, std::is_same_v<T, long double> ? 10 : sizeof v);
    for (unsigned char x : b) h = (h ^ x) * 1099511628211ull;
  }
  template <typename T, size_t o>
  void spline(const Spline<T, o> &s) {
    h = mix(h, s.getSupport().getStartIndex() * 1000 + s.getSupport().getEndIndex());
    for (const auto &cs : s.getCoefficients())
      for (const auto &c : cs) val(c);
  }
};

template <typename T>
struct Round {
  Ctx &c;
  Dg dg;
  std::string ctx;
  template <size_t o>
  void judge(const char *what, const Spline<T, o> &res, const Den &ex,
             const AbsM *sc) {
    dg.spline(res);
    Verdict v = agreeSpline(res, ex, sc);
    c.maxval(std::string("ratio:") + what, v.ratio);
    c.count(std::string("checked:") + what);
    if (!v.ok)
      c.violation("C16", std::string("round/") + what,
                  ctx + " " + what + ": " + v.why);
  }
  void judgeScalar(const char *what, const T &res, const R &ex, const R &S) {
    dg.val(res);
    Verdict v = agreeScalar(res, ex, S);
    c.maxval(std::string("ratio:") + what, v.ratio);
    c.count(std::string("checked:") + what);
    if (!v.ok)
      c.violation("C16", std::string("round/") + what,
                  ctx + " " + what + ": " + v.why);
  }
};

R absIntegral(const Poly &S, const R &h) {
  R r(0), hp = h;
  for (size_t j = 0; j < S.size(); j++) {
    r += S[j] * 2 * hp / R(j + 1);
    hp *= h;
  }
  return r;
}

template <typename T, size_t p>
void roundCase(Ctx &c, Rng &g) {
  using namespace bspline::operators;
  using namespace bspline::integration;
  Round<T> rd{c, {}, ""};
  // knots on the well-scaled lattice, edge-heavy
  const size_t nd = (size_t)g.range(3, 9);
  const std::vector<R> distinct = genGrid(g, true, nd, nd);
  std::vector<R> knots;
  const int pat = (int)g.below(4);
  for (size_t i = 0; i < distinct.size(); i++) {
    size_t m = 1;
    if (pat == 1 && (i == 0 || i + 1 == distinct.size())) m = p + 1;
    if (pat == 2 && i == distinct.size() / 2) m = (size_t)g.range(1, (int64_t)p + 1);
    if (pat == 3) m = (size_t)g.range(1, 3);
    for (size_t r = 0; r < m; r++) knots.push_back(distinct[i]);
  }
  if (knots.size() < p + 2) {
    c.count("too-short");
    return;
  }
  rd.ctx = "order " + std::to_string(p) + " knots " + gridStr(knots);
  c.count("cases-run");
  c.count("order:" + std::to_string(p));
  if (rabs(distinct.front()) == 8 || rabs(distinct.back()) == 8)
    c.count("edge:|x|=8");
  for (size_t i = 0; i + 1 < distinct.size(); i++)
    if (distinct[i + 1] - distinct[i] == R(1) / 8) {
      c.count("edge:spacing=1/8");
      break;
    }
  // 1. generated B-splines
  bspline::BSplineGenerator<T> gen(mkVec<T>(knots));
  const auto basis = gen.template generateBSplines<p>();
  const auto ref = model::coxDeBoor(knots, p);
  if (basis.size() != ref.size()) {
    c.violation("C16", "round/generate-count", rd.ctx);
    return;
  }
  for (size_t i = 0; i < basis.size(); i++)
    rd.judge("generate", basis[i], ref[i], nullptr);
  // operands: a generated B-spline and a general spline on the same grid
  const Grid<T> grid = gen.getGrid();
  const size_t n = distinct.size();
  const Spline<T, p> &a = basis[g.below(basis.size())];
  const Win wb = genWin(g, n);
  CoefM cm = genCoefM(g, true, wb.nint(), 2);
  if (g.chance(1, 2)) {
    // full-mantissa coefficients: any value of T is an admissible input; its
    // exact image is what the oracle computes with
    for (auto &row : cm)
      for (auto &x : row) {
        const T v = (T)g.range(-1000000, 1000000) / (T)g.range(3, 99999);
        x = toR<T>(v);
      }
    c.count("coefficients:full-mantissa");
  } else if (g.chance(1, 3))  // cancelling pattern: alternating signs of equal size
    for (size_t j = 0; j < cm.size(); j++)
      for (size_t k = 0; k < 3; k++) cm[j][k] = R(((j + k) % 2) ? -2047 : 2047) / 8;
  const Spline<T, 2> b = mkSpline<T, 2>(grid, wb.start, wb.end, cm);
  const Den da = denote(a), db = denote(b);
  const AbsM aa = absOf(a), ab = absOf(b);
  // 2. sums and products
  {
    const AbsM s = absAdd(aa, ab), m = absMul(aa, ab);
    rd.judge("sum", a + b, model::dadd(da, db), &s);
    rd.judge("difference", a - b, model::dsub(da, db), &s);
    rd.judge("product", a * b, model::dmul(da, db), &m);
    const AbsM sc = absScale(ab, R(-2047) / 1024);
    rd.judge("scalar-multiple", mk<T>(R(-2047) / 1024) * b,
             model::dscale(db, R(-2047) / 1024), &sc);
  }
  // 3. operators incl. a high power of x and a long chain
  {
    const AbsM x4 = absMulX(ab, 4, distinct);
    rd.judge("X<4>", X<4>{} * b, model::dmulx(db, 4), &x4);
    const AbsM d2 = absDeriv(aa, 2);
    rd.judge("Dx<2>", Dx<2>{} * a, model::dderiv(da, 2), &d2);
    // chain: (X<1>*Dx<1> - Dx<1>*X<1> + X<2>*Dx<2>) * (X<1> - 3) applied to b
    const mx::P e = mx::prod(
        mx::sum(mx::diff(mx::prod(mx::X(1), mx::D(1)), mx::prod(mx::D(1), mx::X(1))),
                mx::prod(mx::X(2), mx::D(2))),
        mx::mkc(mx::K_SUBC, 3, 1, mx::X(1)));
    auto res = ((X<1>{} * Dx<1>{} - Dx<1>{} * X<1>{} + X<2>{} * Dx<2>{}) *
                (X<1>{} - 3)) * b;
    Den ex = model::dzero(distinct);
    AbsM sc(distinct.size() - 1);
    for (size_t k = wb.start; k + 1 < wb.end; k++) {
      mx::Cx cx;
      cx.interval = k;
      cx.grid = &distinct;
      ex.pc[k] = mx::applyExact(*e, db.pc[k], cx);
      sc[k] = mx::applyAbs(*e, ab[k], cx);
    }
    rd.judge("expression-chain", res, ex, &sc);
  }
  // 4. evaluation next to the knots
  for (size_t k = 0; k + 1 < n; k++) {
    for (int side = 0; side < 3; side++) {
      const R xr = side == 0 ? distinct[k]
                             : (side == 1 ? R(distinct[k] + R(1) / 1024)
                                          : R(distinct[k + 1] - R(1) / 1024));
      const T val = a(mk<T>(xr));
      // a is a B-spline: continuous where p >= multiplicity; use the piece of
      // interval k (for side 0 the library may use the left neighbour)
      const R xm = (distinct[k] + distinct[k + 1]) / 2;
      R S = hsum(aa[k], rabs(xr - xm));
      R exact = model::peval(da.pc[k], xr);
      if (side == 0 && k > 0) {
        const R exl = model::peval(da.pc[k - 1], xr);
        if (exl != exact) {
          rd.dg.val(val);
          continue;  // discontinuous at this knot: either piece is fine (C02)
        }
        S = std::max(S, hsum(aa[k - 1], rabs(xr - (distinct[k - 1] + distinct[k]) / 2)));
      }
      if (S == 0) S = R(1) / R(vq::Z(1) << 60);
      rd.judgeScalar("evaluate", val, exact, S);
    }
  }
  // 4b. evaluation of the general spline everywhere, also outside its window
  // (exactly zero there, whatever the build configuration)
  for (size_t k = 0; k < n; k++)
    for (int side = -1; side <= 1; side++) {
      const R xr = distinct[k] + R(side) / 512;
      const T val = b(mk<T>(xr));
      const bool inside = wb.nint() > 0 && xr >= distinct[wb.start] &&
                          xr <= distinct[wb.end - 1];
      if (!inside) {
        rd.judgeScalar("evaluate-outside", val, R(0), R(0));
        continue;
      }
      // containing interval(s); at a knot either neighbour is accepted (C02)
      bool ok = false;
      for (size_t q = wb.start; q + 1 < wb.end && !ok; q++) {
        if (!(xr >= distinct[q] && xr <= distinct[q + 1])) continue;
        const R xm = (distinct[q] + distinct[q + 1]) / 2;
        R S = hsum(ab[q], rabs(xr - xm));
        if (S == 0) S = R(1) / R(vq::Z(1) << 60);
        ok = agreeScalar(val, model::peval(db.pc[q], xr), S).ok;
      }
      rd.dg.val(val);
      c.count("checked:evaluate-general");
      if (!ok)
        c.violation("C16", "round/evaluate-general",
                    rd.ctx + " b=" + splineStr(b) + " x=" + model::rstr(xr));
    }
  for (const R &far : {R(-1000), R(1000), R(distinct.front() - R(1) / 1024),
                       R(distinct.back() + R(1) / 1024)})
    rd.judgeScalar("evaluate-outside", a(mk<T>(far)), R(0), R(0));
  // 4c. a general spline of the highest order of the family (6) with
  // full-mantissa coefficients through every kernel
  {
    const Win w6 = genWin(g, n);
    CoefM c6 = genCoefM(g, true, w6.nint(), 6);
    for (auto &row : c6)
      for (auto &x : row) {
        const T v = (T)g.range(-1000000, 1000000) / (T)g.range(3, 99999);
        x = toR<T>(v);
      }
    const Spline<T, 6> b6 = mkSpline<T, 6>(grid, w6.start, w6.end, c6);
    const Den d6 = denote(b6);
    const AbsM a6 = absOf(b6);
    for (size_t k = w6.start; k + 1 < w6.end; k++)
      for (int t = 0; t <= 4; t++) {  // incl. both ends of the interval
        const R xr = distinct[k] + (distinct[k + 1] - distinct[k]) * t / 4;
        const R xm = (distinct[k] + distinct[k + 1]) / 2;
        R S = hsum(a6[k], rabs(xr - xm));
        const R exact = model::peval(d6.pc[k], xr);
        if ((t == 0 && k > w6.start) || (t == 4 && k + 2 < w6.end)) {
          rd.dg.val(b6(mk<T>(xr)));
          continue;  // shared grid point: either neighbour (C02)
        }
        if (S == 0) S = R(1) / R(vq::Z(1) << 60);
        rd.judgeScalar("evaluate-order6", b6(mk<T>(xr)), exact, S);
      }
    {
      const AbsM x1 = absMulX(a6, 1, distinct), x3 = absMulX(a6, 3, distinct);
      rd.judge("X<1>-order6", X<1>{} * b6, model::dmulx(d6, 1), &x1);
      rd.judge("X<3>-order6", X<3>{} * b6, model::dmulx(d6, 3), &x3);
      const AbsM x5 = absMulX(a6, 5, distinct), x6 = absMulX(a6, 6, distinct);
      rd.judge("X<5>-order6", X<5>{} * b6, model::dmulx(d6, 5), &x5);
      rd.judge("X<6>-order6", X<6>{} * b6, model::dmulx(d6, 6), &x6);
      // the same high powers on a generated B-spline of order p
      const AbsM xa5 = absMulX(aa, 5, distinct);
      rd.judge("X<5>-bspline", X<5>{} * a, model::dmulx(da, 5), &xa5);
      const AbsM d1 = absDeriv(a6, 1), d5 = absDeriv(a6, 5);
      rd.judge("Dx<1>-order6", Dx<1>{} * b6, model::dderiv(d6, 1), &d1);
      rd.judge("Dx<5>-order6", Dx<5>{} * b6, model::dderiv(d6, 5), &d5);
      const AbsM sm = absAdd(a6, aa);
      rd.judge("sum-order6", b6 + a, model::dadd(d6, da), &sm);
    }
    R lf(0), lfS(0), l1(0), l1S(0), sp(0), spS(0), bx(0), bxS(0);
    const Den x1d = model::dmulx(d6, 1), dd = model::dderiv(d6, 1);
    const AbsM x1a = absMulX(a6, 1, distinct), dda = absDeriv(a6, 1);
    for (size_t k = w6.start; k + 1 < w6.end; k++) {
      const R h = (distinct[k + 1] - distinct[k]) / 2;
      lf += model::pintegral(d6.pc[k], distinct[k], distinct[k + 1]);
      lfS += absIntegral(a6[k], h);
      l1 += model::pintegral(x1d.pc[k], distinct[k], distinct[k + 1]);
      l1S += absIntegral(x1a[k], h);
      sp += model::pintegral(model::pmul(d6.pc[k], d6.pc[k]), distinct[k], distinct[k + 1]);
      spS += absIntegral(model::pmul(a6[k], a6[k]), h);
      bx += model::pintegral(model::pmul(x1d.pc[k], dd.pc[k]), distinct[k], distinct[k + 1]);
      bxS += absIntegral(model::pmul(x1a[k], dda[k]), h);
    }
    rd.judgeScalar("linear-form-order6", LinearForm{}(b6), lf, lfS);
    rd.judgeScalar("linear-form-X1-order6", LinearForm{X<1>{}}(b6), l1, l1S);
    rd.judgeScalar("scalar-product-order6", ScalarProduct{}(b6, b6), sp, spS);
    rd.judgeScalar("bilinear-form-order6", BilinearForm{X<1>{}, Dx<1>{}}(b6, b6), bx, bxS);
  }
  // 5. linear and bilinear forms
  {
    const size_t lo = std::max<size_t>(a.getSupport().getStartIndex(), wb.start),
                 hi = std::min<size_t>(a.getSupport().getEndIndex(), wb.end);
    R sp(0), spS(0), xd(0), xdS(0);
    const Den xa = model::dmulx(da, 2), ddb = model::dderiv(db, 1);
    const AbsM xaA = absMulX(aa, 2, distinct), ddbA = absDeriv(ab, 1);
    for (size_t k = lo; hi > lo && k + 1 < hi; k++) {
      const R h = (distinct[k + 1] - distinct[k]) / 2;
      sp += model::pintegral(model::pmul(da.pc[k], db.pc[k]), distinct[k], distinct[k + 1]);
      spS += absIntegral(model::pmul(aa[k], ab[k]), h);
      xd += model::pintegral(model::pmul(xa.pc[k], ddb.pc[k]), distinct[k], distinct[k + 1]);
      xdS += absIntegral(model::pmul(xaA[k], ddbA[k]), h);
    }
    rd.judgeScalar("scalar-product", ScalarProduct{}(a, b), sp, spS);
    rd.judgeScalar("bilinear-form", BilinearForm{X<2>{}, Dx<1>{}}(a, b), xd, xdS);
    R lf(0), lfS(0);
    const Den x3 = model::dmulx(db, 3);
    const AbsM x3A = absMulX(ab, 3, distinct);
    for (size_t k = wb.start; k + 1 < wb.end; k++) {
      lf += model::pintegral(x3.pc[k], distinct[k], distinct[k + 1]);
      lfS += absIntegral(x3A[k], (distinct[k + 1] - distinct[k]) / 2);
    }
    rd.judgeScalar("linear-form", LinearForm{X<3>{}}(b), lf, lfS);
  }
  c.digest(rd.dg.h);
  Hasher h;
  h.s(rd.ctx);
  h.s(coefStr(cm));
  c.nontrivial(h.h);
  c.sample(rd.ctx + " general operand " + splineStr(b), 2);
}

template <typename T>
void runCase(Ctx &c) {
  Rng g = c.rng();
  const size_t p = 2 + c.caseId % (MAXP - 1);  // 2..6
  dispatchOrder<MAXP>(p, [&](auto P) {
    if constexpr (P.value >= 2) roundCase<T, P.value>(c, g);
  });
}

}  // namespace

int main(int argc, char **argv) {
  return driverMain(argc, argv, "round", ST<VT>::name(), runCase<VT>);
}
