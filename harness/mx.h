// Run-time mirror of an operator expression (ModelExpr) with two
// interpretations: exact (global coordinates) and absolute (midpoint
// coordinates, every number replaced by its absolute value, every difference
// by a sum) — the latter is the scale S of the C16 bound for expressions.
#ifndef VERIF_MX_H
#define VERIF_MX_H

#include <memory>
#include <string>
#include <vector>

#include "model.h"

namespace mx {
using model::Poly;
using model::R;

enum Kind {
  K_I,
  K_X,
  K_D,
  K_V,      // multiplication by factor spline #n
  K_SCALE,  // c*E, E*c
  K_DIVC,   // E/c
  K_ADDC,   // E+c, c+E
  K_SUBC,   // E-c
  K_CSUB,   // c-E
  K_NEG,
  K_SUM,
  K_DIFF,
  K_PROD
};

struct Node;
using P = std::shared_ptr<const Node>;
struct Node {
  Kind k;
  size_t n = 0;  // power / derivative order / factor slot
  R c = 0;       // literal scalar
  int ci = -1;   // >= 0: index of a run-time scalar of type T instead of c
  P a, b;
};

inline P mk(Kind k, size_t n = 0, P a = nullptr, P b = nullptr) {
  auto p = std::make_shared<Node>();
  p->k = k;
  p->n = n;
  p->a = std::move(a);
  p->b = std::move(b);
  return p;
}
// scalar given as literal num/den
inline P mkc(Kind k, long num, long den, P a) {
  auto p = std::make_shared<Node>();
  p->k = k;
  p->c = R(num) / R(den);
  p->a = std::move(a);
  return p;
}
// scalar = run-time value #ci of the spline's own data type
inline P mkt(Kind k, int ci, P a) {
  auto p = std::make_shared<Node>();
  p->k = k;
  p->ci = ci;
  p->a = std::move(a);
  return p;
}
inline P I() { return mk(K_I); }
inline P X(size_t n) { return mk(K_X, n); }
inline P D(size_t n) { return mk(K_D, n); }
inline P V(size_t slot) { return mk(K_V, slot); }
inline P neg(P a) { return mk(K_NEG, 0, std::move(a)); }
inline P sum(P a, P b) { return mk(K_SUM, 0, std::move(a), std::move(b)); }
inline P diff(P a, P b) { return mk(K_DIFF, 0, std::move(a), std::move(b)); }
inline P prod(P a, P b) { return mk(K_PROD, 0, std::move(a), std::move(b)); }

struct Cx {
  size_t interval = 0;                  // absolute interval index
  const std::vector<R> *grid = nullptr;  // whole grid
  std::vector<R> tscalars;              // run-time scalars (exact images)
  // factor pieces on this interval: exact (global) and absolute (midpoint)
  std::vector<const std::vector<Poly> *> factorExact;
  std::vector<const std::vector<Poly> *> factorAbs;
};

inline R scalarOf(const Node &e, const Cx &cx) {
  return e.ci >= 0 ? cx.tscalars[(size_t)e.ci] : e.c;
}

inline Poly applyExact(const Node &e, const Poly &p, const Cx &cx) {
  using namespace model;
  switch (e.k) {
    case K_I:
      return p;
    case K_X:
      return pmulx(p, e.n);
    case K_D:
      return pderiv(p, e.n);
    case K_V:
      return pmul(p, (*cx.factorExact[e.n])[cx.interval]);
    case K_SCALE:
      return pscale(applyExact(*e.a, p, cx), scalarOf(e, cx));
    case K_DIVC:
      return pscale(applyExact(*e.a, p, cx), R(1) / scalarOf(e, cx));
    case K_ADDC:
      return padd(applyExact(*e.a, p, cx), pscale(p, scalarOf(e, cx)));
    case K_SUBC:
      return psub(applyExact(*e.a, p, cx), pscale(p, scalarOf(e, cx)));
    case K_CSUB:
      return psub(pscale(p, scalarOf(e, cx)), applyExact(*e.a, p, cx));
    case K_NEG:
      return pscale(applyExact(*e.a, p, cx), R(-1));
    case K_SUM:
      return padd(applyExact(*e.a, p, cx), applyExact(*e.b, p, cx));
    case K_DIFF:
      return psub(applyExact(*e.a, p, cx), applyExact(*e.b, p, cx));
    case K_PROD:
      return applyExact(*e.a, applyExact(*e.b, p, cx), cx);
  }
  return {};
}

inline R absr(const R &x) { return x < 0 ? R(-x) : x; }

// p: absolute midpoint coefficients of the input piece
inline Poly applyAbs(const Node &e, const Poly &p, const Cx &cx) {
  using namespace model;
  switch (e.k) {
    case K_I:
      return p;
    case K_X: {
      const R xm =
          absr(((*cx.grid)[cx.interval] + (*cx.grid)[cx.interval + 1]) / 2);
      Poly f{R(1)};
      for (size_t i = 0; i < e.n; i++) f = pmul(f, Poly{xm, R(1)});
      return pmul(p, f);
    }
    case K_D:
      return pderiv(p, e.n);
    case K_V:
      return pmul(p, (*cx.factorAbs[e.n])[cx.interval]);
    case K_SCALE:
      return pscale(applyAbs(*e.a, p, cx), absr(scalarOf(e, cx)));
    case K_DIVC:
      return pscale(applyAbs(*e.a, p, cx), R(1) / absr(scalarOf(e, cx)));
    case K_ADDC:
    case K_SUBC:
    case K_CSUB:
      return padd(applyAbs(*e.a, p, cx), pscale(p, absr(scalarOf(e, cx))));
    case K_NEG:
      return applyAbs(*e.a, p, cx);
    case K_SUM:
    case K_DIFF:
      return padd(applyAbs(*e.a, p, cx), applyAbs(*e.b, p, cx));
    case K_PROD:
      return applyAbs(*e.a, applyAbs(*e.b, p, cx), cx);
  }
  return {};
}

}  // namespace mx
#endif
