// Glue between the library under test and the reference model: abstraction
// function denote(), constructors from exact data, input generators, and the
// verdict function agree() (equality for the exact type, the C16 rounding
// bound for floating types).
#ifndef VERIF_LIB_H
#define VERIF_LIB_H

#include <bspline/Core.h>

#include <array>
#include <optional>
#include <utility>

#include "core.h"
#include "model.h"

namespace vf {
using model::Den;
using model::Poly;

// ------------------------------------------------------------ compile-time
template <size_t Max, typename F>
inline void dispatchOrder(size_t o, F &&f) {
  if constexpr (Max == 0) {
    f(std::integral_constant<size_t, 0>{});
  } else {
    if (o == Max)
      f(std::integral_constant<size_t, Max>{});
    else
      dispatchOrder<Max - 1>(o, std::forward<F>(f));
  }
}

// -------------------------------------------------------- abstraction fn
template <typename T>
inline std::vector<R> gridR(const bspline::support::Grid<T> &g) {
  std::vector<R> r;
  r.reserve(g.size());
  for (auto it = g.begin(); it != g.end(); ++it) r.push_back(toR<T>(*it));
  return r;
}

// midpoint coefficients (exact images) of interval j (relative) of s
template <typename T, size_t o>
inline Poly midCoeffs(const bspline::Spline<T, o> &s, size_t j) {
  Poly p(o + 1);
  const auto &c = s.getCoefficients()[j];
  for (size_t k = 0; k <= o; k++) p[k] = toR<T>(c[k]);
  return p;
}

template <typename T, size_t o>
inline Den denote(const bspline::Spline<T, o> &s) {
  Den d = model::dzero(gridR(s.getSupport().getGrid()));
  const size_t start = s.getSupport().getStartIndex();
  const size_t n = s.getSupport().numberOfIntervals();
  for (size_t j = 0; j < n; j++) {
    const size_t k = start + j;
    const R xm = (d.grid[k] + d.grid[k + 1]) / 2;
    // stored: p(u), u = x - xm  ->  global q(x) = p(x - xm)
    d.pc[k] = model::pshift(midCoeffs(s, j), -xm);
  }
  return d;
}

template <typename T>
inline bool allFinite(const T &) {
  return true;
}
template <typename T, size_t o>
inline bool splineFinite(const bspline::Spline<T, o> &s) {
  for (const auto &cs : s.getCoefficients())
    for (const auto &c : cs)
      if (!ST<T>::finite(c)) return false;
  return true;
}

// ---------------------------------------------------------- constructors
template <typename T>
inline std::vector<T> mkVec(const std::vector<R> &pts) {
  std::vector<T> v;
  v.reserve(pts.size());
  for (const auto &p : pts) v.push_back(mk<T>(p));
  return v;
}
template <typename T>
inline bspline::support::Grid<T> mkGrid(const std::vector<R> &pts) {
  return bspline::support::Grid<T>(mkVec<T>(pts));
}
// coefficient matrix (midpoint representation), one row per interval
using CoefM = std::vector<std::vector<R>>;
template <typename T, size_t o>
inline bspline::Spline<T, o> mkSpline(const bspline::support::Grid<T> &g,
                                      size_t start, size_t end,
                                      const CoefM &cm) {
  std::vector<std::array<T, o + 1>> cs(cm.size());
  for (size_t j = 0; j < cm.size(); j++)
    for (size_t k = 0; k <= o; k++) {
      cs[j][k] = k < cm[j].size() ? mk<T>(cm[j][k]) : mk<T>(R(0));
      // floating types: some of the zero coefficients are negative zeros (the
      // same number for every oracle, a different bit pattern for the code)
      if constexpr (!ST<T>::exact)
        if (cs[j][k] == 0 && (j + 2 * k + start) % 3 == 0) cs[j][k] = -cs[j][k];
    }
  return bspline::Spline<T, o>(bspline::support::Support<T>(g, start, end),
                               std::move(cs));
}

// ------------------------------------------------------------- generators
// Grid points. wellScaled: dyadic lattice 1/16, |x| <= 8, spacing >= 1/8 (the
// C16 family; exactly representable in float). Otherwise hostile exact
// rationals (only meaningful for the exact scalar type).
inline std::vector<R> genGrid(Rng &g, bool wellScaled, size_t minPts,
                              size_t maxPts) {
  size_t n = (size_t)g.range((int64_t)minPts, (int64_t)maxPts);
  std::vector<R> pts;
  if (wellScaled) {
    // lattice units of 1/16 in [-128,128]; gaps >= 2 units
    const int64_t room = 256;
    if (n > 120) n = 120;
    std::vector<int64_t> gaps(n - 1);
    const int shape = (int)g.below(4);
    int64_t total = 0;
    for (auto &w : gaps) {
      switch (shape) {
        case 0:
          w = 2;
          break;  // minimal spacing 1/8
        case 1:
          w = 16;
          break;  // unit spacing
        case 2:
          w = 2 << g.below(4);
          break;
        default:
          w = g.range(2, 24);
      }
      total += w;
    }
    while (total > room) {  // shrink until it fits
      total = 0;
      for (auto &w : gaps) {
        w = std::max<int64_t>(2, w / 2);
        total += w;
      }
    }
    int64_t startU;
    switch (g.below(4)) {
      case 0:
        startU = -128;
        break;  // left edge of the domain
      case 1:
        startU = 128 - total;
        break;  // right edge of the domain (|x| close to 8)
      case 2:
        startU = -(total / 2);
        break;  // straddling the origin
      default:
        startU = g.range(-128, 128 - total);
    }
    int64_t x = startU;
    pts.push_back(R(x) / 16);
    for (auto w : gaps) {
      x += w;
      pts.push_back(R(x) / 16);
    }
    return pts;
  }
  static const std::vector<std::pair<long, long>> widths = {
      {1, 1}, {1, 2}, {1, 3}, {2, 7}, {5, 2}, {1, 1024}, {1000, 1}, {1, 16}};
  static const std::vector<std::pair<long, long>> offs = {
      {0, 1},        {1, 3},       {-1, 3},   {-17, 5}, {1048576, 1},
      {-1048576, 1}, {1000003, 7}, {-5, 1},   {3, 1},   {0, 1}};
  const auto off = g.pick(offs);
  R x = R(off.first) / off.second;
  const int shape = (int)g.below(4);
  const auto w0 = g.pick(widths);
  R w = R(w0.first) / w0.second;
  static const std::vector<std::pair<long, long>> ratios = {
      {2, 1}, {1, 2}, {3, 1}, {1024, 1}, {1, 1024}, {3, 2}};
  const auto rt = g.pick(ratios);
  const R ratio = R(rt.first) / rt.second;
  if (g.chance(1, 4)) x -= w * R((long)n) / 2;  // straddle the offset
  pts.push_back(x);
  for (size_t i = 1; i < n; i++) {
    switch (shape) {
      case 0:
        break;  // uniform
      case 1:
        if (i > 1 && i < 8) w *= ratio;
        break;  // geometric (bounded)
      default: {
        const auto wi = g.pick(widths);
        w = R(wi.first) / wi.second;
      }
    }
    x += w;
    pts.push_back(x);
  }
  // exact runs: now and then one interval is squeezed to a relative width of
  // about 2^-110 (two distinct points far closer than any floating type could
  // tell apart - still a perfectly valid strictly increasing grid)
  if (g.chance(1, 8) && n >= 3) {
    const size_t k = (size_t)g.range(0, (int64_t)n - 2);
    const R tiny = R(1) / R(vq::Z(1) << 90);
    const R shift = pts[k + 1] - pts[k] - tiny;
    for (size_t i = k + 1; i < n; i++) pts[i] -= shift;
  }
  return pts;
}

// One coefficient value. style: 0 small int, 1 dyadic, 2 sparse, 3 large
// rational (exact only), 4 alternating is handled by the caller.
inline R genCoef(Rng &g, bool dyadicOnly, int style) {
  switch (style) {
    case 0:
      return R(g.range(-3, 3));
    case 1:
      return R(g.range(-2048, 2048)) / R(1L << g.below(7));
    case 2:
      return g.chance(2, 3) ? R(0) : R(g.range(-5, 5));
    case 3:
      if (!dyadicOnly)
        return R(g.range(-999999937, 999999937)) /
               R(g.range(1, 999999929));
      return R(g.range(-2048, 2048)) * R(1L << g.below(10));
    default:
      return R(g.range(-9, 9)) / R(1L << g.below(3));
  }
}

inline CoefM genCoefM(Rng &g, bool dyadicOnly, size_t nint, size_t order) {
  CoefM m(nint, std::vector<R>(order + 1));
  const int style = (int)g.below(5);
  const bool alternate = g.chance(1, 6);
  for (size_t j = 0; j < nint; j++) {
    const bool zeroPiece = g.chance(1, 8);
    for (size_t k = 0; k <= order; k++) {
      R c = zeroPiece ? R(0) : genCoef(g, dyadicOnly, style);
      if (alternate && ((j + k) & 1)) c = -c;
      m[j][k] = c;
    }
  }
  return m;
}

inline R genScalar(Rng &g, bool dyadicOnly) {
  switch (g.below(8)) {
    case 0:
      return R(1);
    case 1:
      return R(-1);
    case 2:
      return R(2);
    case 3:
      return R(g.range(-7, 7) | 1);
    case 4:
      return R(g.range(1, 2047) | 1) / R(1L << g.below(8));
    case 5:
      return -R(g.range(1, 2047) | 1) / R(1L << g.below(8));
    case 6:
      return dyadicOnly ? R(3) / 4 : R(g.range(1, 99)) / R(g.range(1, 99));
    default:
      return dyadicOnly ? R(-5) / 2 : -R(g.range(1, 99)) / R(g.range(1, 99));
  }
}

struct Win {
  size_t start = 0, end = 0;  // grid-point window [start,end); (0,0) empty
  size_t nint() const { return end - start >= 2 ? end - start - 1 : 0; }
  bool empty() const { return start == end; }
};

// a random window with at least one interval on a grid of n points
inline Win genWin(Rng &g, size_t n) {
  if (g.chance(1, 5)) return Win{0, n};
  const size_t s = g.below(n - 1);
  const size_t e = (size_t)g.range((int64_t)s + 2, (int64_t)n);
  return Win{s, e};
}

enum Placement {
  P_EQ,
  P_A_IN_B,
  P_B_IN_A,
  P_PARTIAL_L,  // A starts left of B and they share >= 1 interval
  P_PARTIAL_R,
  P_TOUCH,  // one common grid point, no common interval
  P_GAP,
  P_A_EMPTY,
  P_B_EMPTY,
  P_BOTH_EMPTY,
  P_A_POINT,
  P_B_POINT,
  P_COUNT
};
inline const char *placementName(int p) {
  static const char *n[] = {"EQ",      "A_IN_B",  "B_IN_A",     "PARTIAL_L",
                            "PARTIAL_R", "TOUCH", "GAP",        "A_EMPTY",
                            "B_EMPTY", "BOTH_EMPTY", "A_POINT", "B_POINT"};
  return (p >= 0 && p < P_COUNT) ? n[p] : "?";
}
constexpr size_t PLACEMENT_MIN_POINTS = 6;

// Two windows on a grid of n >= 6 points in the requested relative placement.
inline std::pair<Win, Win> genPlacement(Rng &g, size_t n, int placement) {
  auto rnd = [&](size_t lo, size_t hi) {
    return (size_t)g.range((int64_t)lo, (int64_t)hi);
  };
  Win a, b;
  switch (placement) {
    case P_EQ:
      a = b = genWin(g, n);
      break;
    case P_A_IN_B:
    case P_B_IN_A: {
      // outer has >= 2 intervals, inner strictly smaller
      const size_t os = rnd(0, n - 3), oe = rnd(os + 3, n);
      const size_t is = rnd(os, oe - 2);
      size_t ie = rnd(is + 2, oe);
      if (is == os && ie == oe) ie = oe - 1 >= is + 2 ? oe - 1 : ie;
      Win outer{os, oe}, inner{is, ie};
      if (inner.start == outer.start && inner.end == outer.end)
        inner.start++;  // outer has >=2 intervals so this keeps >=1
      if (placement == P_A_IN_B) {
        a = inner;
        b = outer;
      } else {
        a = outer;
        b = inner;
      }
      break;
    }
    case P_PARTIAL_L:
    case P_PARTIAL_R: {
      // L = [ls,le), Rr = [rs,re) with ls < rs < le-1+1 ... share >=1 interval
      // and each has an interval the other lacks: ls<rs, rs+1<le, le<re
      const size_t ls = rnd(0, n - 4);
      const size_t rs = rnd(ls + 1, n - 3);
      const size_t le = rnd(rs + 2, n - 1);
      const size_t re = rnd(le + 1, n);
      Win L{ls, le}, Rr{rs, re};
      if (placement == P_PARTIAL_L) {
        a = L;
        b = Rr;
      } else {
        a = Rr;
        b = L;
      }
      break;
    }
    case P_TOUCH: {
      const size_t m = rnd(1, n - 2);  // common point
      const size_t ls = rnd(0, m - 1), re = rnd(m + 2, n);
      Win L{ls, m + 1}, Rr{m, re};
      if (g.chance(1, 2)) {
        a = L;
        b = Rr;
      } else {
        a = Rr;
        b = L;
      }
      break;
    }
    case P_GAP: {
      // L ends at point m (exclusive end m+1), R starts at point >= m+1
      const size_t le = rnd(2, n - 2);       // L = [ls,le)
      const size_t rs = rnd(le, n - 2);      // R = [rs,re), rs >= le
      const size_t ls = rnd(0, le - 2), re = rnd(rs + 2, n);
      Win L{ls, le}, Rr{rs, re};
      if (g.chance(1, 2)) {
        a = L;
        b = Rr;
      } else {
        a = Rr;
        b = L;
      }
      break;
    }
    case P_A_EMPTY:
      a = Win{0, 0};
      b = genWin(g, n);
      break;
    case P_B_EMPTY:
      a = genWin(g, n);
      b = Win{0, 0};
      break;
    case P_BOTH_EMPTY:
      a = b = Win{0, 0};
      break;
    case P_A_POINT:
    case P_B_POINT: {
      Win w = genWin(g, n);
      size_t p;
      switch (g.below(4)) {
        case 0:
          p = w.start;
          break;  // at the edge
        case 1:
          p = w.end - 1;
          break;
        case 2:
          p = rnd(w.start, w.end - 1);
          break;  // inside
        default:
          p = rnd(0, n - 1);  // anywhere (possibly outside)
      }
      Win pt{p, p + 1};
      if (placement == P_A_POINT) {
        a = pt;
        b = w;
      } else {
        a = w;
        b = pt;
      }
      break;
    }
    default:
      a = b = Win{0, n};
  }
  return {a, b};
}

// relative placement class of two windows
inline int classify(const Win &a, const Win &b) {
  if (a.empty() && b.empty()) return P_BOTH_EMPTY;
  if (a.empty()) return P_A_EMPTY;
  if (b.empty()) return P_B_EMPTY;
  if (a.end - a.start == 1) return P_A_POINT;
  if (b.end - b.start == 1) return P_B_POINT;
  if (a.start == b.start && a.end == b.end) return P_EQ;
  const size_t lo = std::max(a.start, b.start), hi = std::min(a.end, b.end);
  if (hi <= lo) return P_GAP;
  if (hi - lo == 1) return P_TOUCH;
  if (a.start >= b.start && a.end <= b.end) return P_A_IN_B;
  if (b.start >= a.start && b.end <= a.end) return P_B_IN_A;
  return a.start < b.start ? P_PARTIAL_L : P_PARTIAL_R;
}

// ------------------------------------------------------------------ agree
// Per-interval scale in the midpoint representation (non-negative numbers):
// the sum of the absolute values of the terms of the defining formula.
using AbsM = std::vector<Poly>;  // one per grid interval; empty = all zero

template <typename T, size_t o>
inline AbsM absOf(const bspline::Spline<T, o> &s) {
  AbsM m(s.getSupport().getGrid().size() - 1);
  const size_t start = s.getSupport().getStartIndex();
  const size_t n = s.getSupport().numberOfIntervals();
  for (size_t j = 0; j < n; j++) {
    Poly p = midCoeffs(s, j);
    for (auto &c : p)
      if (c < 0) c = -c;
    m[start + j] = std::move(p);
  }
  return m;
}
inline R rabs(const R &x) { return x < 0 ? R(-x) : x; }
inline Poly pabs(Poly p) {
  for (auto &c : p)
    if (c < 0) c = -c;
  return p;
}
inline R hsum(const Poly &p, const R &h) {  // sum_j p_j h^j
  R r(0);
  for (size_t i = p.size(); i-- > 0;) r = r * h + p[i];
  return r;
}

// abs-domain operations (midpoint coordinates, all numbers non-negative)
inline AbsM absAdd(const AbsM &a, const AbsM &b) {
  AbsM r(a.size());
  for (size_t k = 0; k < a.size(); k++) r[k] = model::padd(a[k], b[k]);
  return r;
}
inline AbsM absMul(const AbsM &a, const AbsM &b) {
  AbsM r(a.size());
  for (size_t k = 0; k < a.size(); k++) r[k] = model::pmul(a[k], b[k]);
  return r;
}
inline AbsM absScale(const AbsM &a, const R &c) {
  AbsM r(a.size());
  for (size_t k = 0; k < a.size(); k++) r[k] = model::pscale(a[k], rabs(c));
  return r;
}
inline AbsM absDeriv(const AbsM &a, size_t n) {
  AbsM r(a.size());
  for (size_t k = 0; k < a.size(); k++) r[k] = model::pderiv(a[k], n);
  return r;
}
// x^n = (u + xm)^n -> (u + |xm|)^n
inline AbsM absMulX(const AbsM &a, size_t n, const std::vector<R> &grid) {
  AbsM r(a.size());
  for (size_t k = 0; k < a.size(); k++) {
    const R xm = rabs((grid[k] + grid[k + 1]) / 2);
    Poly f{R(1)};
    for (size_t i = 0; i < n; i++) f = model::pmul(f, Poly{xm, R(1)});
    r[k] = model::pmul(a[k], f);
  }
  return r;
}

constexpr double C16_FACTOR = 1048576.0;  // 2^20, fixed by the property

struct Verdict {
  bool ok = true;
  double ratio = 0;  // worst err / (eps * S)   (floating only)
  size_t interval = 0;
  std::string why;
};

// Compare a library spline with the exact denotation. For the exact scalar:
// equality of polynomials on every interval of the whole grid. For floating
// scalars: sum_j |c^_j - c_j| h^j <= 2^20 eps sum_j S_j h^j per interval,
// S = scale (if null: the absolute values of the exact midpoint coefficients).
template <typename T, size_t o>
inline Verdict agreeSpline(const bspline::Spline<T, o> &res, const Den &exact,
                           const AbsM *scale = nullptr) {
  Verdict v;
  const Den got = denote(res);
  if (got.grid != exact.grid) {
    v.ok = false;
    v.why = "result lives on a different grid";
    return v;
  }
  if constexpr (ST<T>::exact) {
    size_t where = 0;
    if (!model::deq(got, exact, &where)) {
      v.ok = false;
      v.interval = where;
      Poly g = got.pc[where], e = exact.pc[where];
      model::trim(g);
      model::trim(e);
      v.why = "interval " + std::to_string(where) + ": got " + model::pstr(g) +
              " expected " + model::pstr(e) + " (global coordinates)";
    }
    return v;
  } else {
    if (!splineFinite(res)) {
      v.ok = false;
      v.ratio = INFINITY;
      v.why = "non-finite coefficient in result";
      return v;
    }
    const double eps = ST<T>::eps();
    for (size_t k = 0; k < exact.pc.size(); k++) {
      const R xm = (exact.grid[k] + exact.grid[k + 1]) / 2;
      const R h = (exact.grid[k + 1] - exact.grid[k]) / 2;
      const Poly ce = model::pshift(exact.pc[k], xm);
      const Poly cg = model::pshift(got.pc[k], xm);
      const R err = hsum(pabs(model::psub(cg, ce)), h);
      if (err == 0) continue;
      R S = scale ? hsum((*scale)[k], h) : hsum(pabs(ce), h);
      double ratio;
      if (S == 0)
        ratio = INFINITY;
      else
        ratio = todouble(err / S) / eps;
      if (ratio > v.ratio) {
        v.ratio = ratio;
        v.interval = k;
      }
      if (!(ratio <= C16_FACTOR)) {
        v.ok = false;
        Poly g = cg, e = ce;
        model::trim(g);
        model::trim(e);
        v.why = "interval " + std::to_string(k) + ": got " + model::pstr(g) +
                " expected " + model::pstr(e) +
                " (midpoint coordinates), error/(eps*S) = " +
                std::to_string(ratio);
        return v;
      }
    }
    return v;
  }
}

// scalar result
template <typename T>
inline Verdict agreeScalar(const T &res, const R &exact, const R &scale) {
  Verdict v;
  if constexpr (ST<T>::exact) {
    if (toR<T>(res) != exact) {
      v.ok = false;
      v.why = "got " + model::rstr(toR<T>(res)) + " expected " +
              model::rstr(exact);
    }
    return v;
  } else {
    if (!ST<T>::finite(res)) {
      v.ok = false;
      v.ratio = INFINITY;
      v.why = "non-finite result";
      return v;
    }
    const R err = rabs(toR<T>(res) - exact);
    if (err == 0) return v;
    if (scale == 0)
      v.ratio = INFINITY;
    else
      v.ratio = todouble(err / scale) / ST<T>::eps();
    if (!(v.ratio <= C16_FACTOR)) {
      v.ok = false;
      v.why = "got " + std::to_string((long double)res) + " expected " +
              std::to_string(todouble(exact)) +
              ", error/(eps*S) = " + std::to_string(v.ratio);
    }
    return v;
  }
}

// ------------------------------------------------------ deep snapshots
template <typename T>
inline bool sameBits(const T &a, const T &b) {
  if constexpr (ST<T>::exact) {
    return vq::peek(a) == vq::peek(b);
  } else {
    if (std::isnan(a) || std::isnan(b)) return std::isnan(a) && std::isnan(b);
    return a == b && std::signbit(a) == std::signbit(b);
  }
}

template <typename T>
struct Snap {
  bool live = false;
  const void *gridPtr = nullptr;
  std::vector<T> grid;
  size_t start = 0, end = 0;
  std::vector<T> coef;
  bool operator==(const Snap &o) const {
    if (live != o.live) return false;
    if (!live) return true;
    if (gridPtr != o.gridPtr || start != o.start || end != o.end ||
        grid.size() != o.grid.size() || coef.size() != o.coef.size())
      return false;
    for (size_t i = 0; i < grid.size(); i++)
      if (!sameBits(grid[i], o.grid[i])) return false;
    for (size_t i = 0; i < coef.size(); i++)
      if (!sameBits(coef[i], o.coef[i])) return false;
    return true;
  }
};

template <typename T, size_t o>
Snap<T> snapOf(const std::optional<bspline::Spline<T, o>> &s) {
  Snap<T> r;
  if (!s) return r;
  r.live = true;
  const auto &sup = s->getSupport();
  r.gridPtr = sup.getGrid().getData().get();
  r.grid.assign(sup.getGrid().begin(), sup.getGrid().end());
  r.start = sup.getStartIndex();
  r.end = sup.getEndIndex();
  for (const auto &cs : s->getCoefficients())
    for (const auto &c : cs) r.coef.push_back(c);
  return r;
}


template <typename T, size_t o>
Snap<T> snapOf(const bspline::Spline<T, o> &s) {
  std::optional<bspline::Spline<T, o>> tmp(s);
  Snap<T> r = snapOf(tmp);
  r.gridPtr = s.getSupport().getGrid().getData().get();
  return r;
}

// --------------------------------------------- predicates on near-misses
// C15 on pairs that differ in exactly one coefficient (any position, incl. the
// highest power of the last interval) and on splines with exactly one
// non-zero coefficient. Returns a description of the first lie, or "".
template <typename T, size_t o>
inline std::string predicateNearMisses(const bspline::Spline<T, o> &a, Rng &g) {
  using bspline::Spline;
  const size_t ni = a.getCoefficients().size();
  if (ni == 0) return "";
  auto cs = a.getCoefficients();
  // positions: random, and the very last coefficient
  for (int round = 0; round < 2; round++) {
    const size_t j = round ? ni - 1 : g.below(ni);
    const size_t k = round ? o : g.below(o + 1);
    auto mod = cs;
    mod[j][k] = mod[j][k] + mk<T>(R(1));
    const Spline<T, o> b(a.getSupport(), mod);
    if (a == b || !(a != b) || b == a)
      return "a == b although coefficient [" + std::to_string(j) + "][" +
             std::to_string(k) + "] differs";
    // exactly one non-zero coefficient
    auto one = cs;
    for (auto &row : one)
      for (auto &x : row) x = mk<T>(R(0));
    const Spline<T, o> z(a.getSupport(), one);
    if (!z.isZero()) return "isZero() false for all-zero coefficients";
    one[j][k] = mk<T>(R(-3));
    const Spline<T, o> nz(a.getSupport(), one);
    if (nz.isZero())
      return "isZero() true although coefficient [" + std::to_string(j) + "][" +
             std::to_string(k) + "] is non-zero";
    if (nz == z || !(nz != z)) return "single non-zero coefficient compares equal to zero";
  }
  const Spline<T, o> copy(a);
  if (!(copy == a) || copy != a) return "copy != original";
  // results of scaling: zero exactly when every coefficient is zero - also
  // when a scalar 0 made them zero, or (floating types) when all products
  // underflowed
  auto allZero = [](const Spline<T, o> &s) {
    for (const auto &row : s.getCoefficients())
      for (const auto &x : row)
        if (!(x == mk<T>(R(0)))) return false;
    return true;
  };
  {
    const Spline<T, o> z0 = a * mk<T>(R(0));
    if (!z0.isZero()) return "isZero() false after multiplication by the scalar 0";
    Spline<T, o> z1(a);
    z1 *= mk<T>(R(0));
    if (!z1.isZero() || !(z1 == z0)) return "isZero() false after *= 0";
    if (!(z0 * mk<T>(R(5))).isZero()) return "isZero() false for a scaled zero spline";
  }
  if constexpr (!ST<T>::exact) {
    const T tiny = std::numeric_limits<T>::min();
    Spline<T, o> u = (a * tiny) * tiny;  // every product underflows
    if (u.isZero() != allZero(u))
      return "isZero() does not describe the coefficients after underflow";
    Spline<T, o> v(a);
    v *= tiny;
    v *= tiny;
    if (v.isZero() != allZero(v) || !(v == u))
      return "isZero() does not describe the coefficients after in-place underflow";
    const Spline<T, o> w = -(a / (T(1) / tiny)) * tiny;
    if (w.isZero() != allZero(w)) return "isZero() wrong after division/negation underflow";
  }
  return "";
}

// --------------------------------------------------------------- rendering
inline std::string winStr(const Win &w) {
  return "(" + std::to_string(w.start) + "," + std::to_string(w.end) + ")";
}
inline std::string gridStr(const std::vector<R> &g) {
  std::string s = "[";
  for (size_t i = 0; i < g.size(); i++) {
    if (i) s += ",";
    s += model::rstr(g[i]);
  }
  return s + "]";
}
inline std::string coefStr(const CoefM &m) {
  std::string s = "[";
  for (size_t j = 0; j < m.size(); j++) {
    if (j) s += ",";
    s += model::pstr(m[j]);
  }
  return s + "]";
}
template <typename T, size_t o>
inline std::string splineStr(const bspline::Spline<T, o> &s) {
  std::string r = "{order:" + std::to_string(o) + ",window:(" +
                  std::to_string(s.getSupport().getStartIndex()) + "," +
                  std::to_string(s.getSupport().getEndIndex()) + "),coef:[";
  for (size_t j = 0; j < s.getCoefficients().size(); j++) {
    if (j) r += ",";
    r += model::pstr(midCoeffs(s, j));
  }
  return r + "]}";
}

}  // namespace vf
#endif
