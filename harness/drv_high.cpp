// Extreme spline orders (11 ... 64): every kind of operation once per order,
// against the exact model. Loop bounds, unrolled kernels, tabulated constants
// and array sizes that only matter far above the orders the other drivers
// sweep (0..8) are reached here. Tags: C02 evaluation, C03 arithmetic, C04
// primitive operators, C05 operator expressions, C06 bilinear forms, C07
// linear forms.
#include "lib.h"
#include "scalar.h"

using namespace vf;
using bspline::Spline;
using bspline::exceptions::BSplineException;
using bspline::support::Grid;

namespace {

R absIntegral(const Poly &S, const R &h) {
  R r(0), hp = h;
  for (size_t j = 0; j < S.size(); j++) {
    r += S[j] * 2 * hp / R(j + 1);
    hp *= h;
  }
  return r;
}

template <typename T, size_t o>
void highCase(Ctx &c, Rng &g) {
  using namespace bspline::operators;
  using namespace bspline::integration;
  const bool dyadic = !ST<T>::exact;
  // floating types: keep |coefficient| * h^j bounded: unit-ish spacing
  const std::vector<R> pts = genGrid(g, dyadic, 3, 7);
  const size_t n = pts.size();
  const Grid<T> grid = mkGrid<T>(pts);
  const Win ws = genWin(g, n), wq = genWin(g, n);
  // general coefficients up to the highest degree; sparse ones too
  CoefM cm(ws.nint(), std::vector<R>(o + 1));
  const int style = (int)g.below(3);
  for (auto &row : cm)
    for (size_t k = 0; k <= o; k++) {
      if (style == 1 && k % 2) continue;          // even powers only
      if (style == 2 && k + 3 < o && k > 2) continue;  // lowest and highest
      row[k] = R(g.range(-9, 9)) / R(1L << g.below(4));
    }
  const Spline<T, o> s = mkSpline<T, o>(grid, ws.start, ws.end, cm);
  const Spline<T, 3> q = mkSpline<T, 3>(grid, wq.start, wq.end,
                                        genCoefM(g, dyadic, wq.nint(), 3));
  const Den ds = denote(s), dq = denote(q);
  const AbsM as = absOf(s), aq = absOf(q);
  const std::string ctx = "order " + std::to_string(o) + " grid " + gridStr(pts) +
                          " window " + winStr(ws) + " (coefficient style " +
                          std::to_string(style) + "), partner order 3 window " + winStr(wq);
  c.count("cases-run");
  c.count("order:" + std::to_string(o));
  auto spl = [&](const char *prop, const char *what, const auto &res, const Den &ex,
                 const AbsM &sc) {
    Verdict v = agreeSpline(res, ex, ST<T>::exact ? nullptr : &sc);
    if constexpr (!ST<T>::exact) c.maxval(std::string("ratio:") + what, v.ratio);
    c.count(std::string("checked:") + what);
    if (!v.ok)
      c.violation(prop, std::string("high-order/") + what + "/order" + std::to_string(o),
                  ctx + ": " + v.why);
  };
  auto sca = [&](const char *prop, const char *what, const T &val, const R &ex,
                 const R &S) {
    Verdict v = agreeScalar(val, ex, S);
    if constexpr (!ST<T>::exact) c.maxval(std::string("ratio:") + what, v.ratio);
    c.count(std::string("checked:") + what);
    if (!v.ok)
      c.violation(prop, std::string("high-order/") + what + "/order" + std::to_string(o),
                  ctx + ": " + v.why);
  };
  try {
    // ---- C02 evaluation
    for (size_t k = ws.start; k + 1 < ws.end; k++)
      for (int t = 1; t <= 3; t++) {
        const R xr = pts[k] + (pts[k + 1] - pts[k]) * t / 4;
        const R xm = (pts[k] + pts[k + 1]) / 2;
        sca("C02", "evaluate", s(mk<T>(xr)), model::peval(ds.pc[k], xr),
            hsum(as[k], rabs(xr - xm)));
      }
    // ---- C04 primitive operators
    spl("C04", "Dx<1>", Dx<1>{} * s, model::dderiv(ds, 1), absDeriv(as, 1));
    spl("C04", "Dx<3>", Dx<3>{} * s, model::dderiv(ds, 3), absDeriv(as, 3));
    spl("C04", "Dx<half>", Dx<(o + 1) / 2>{} * s, model::dderiv(ds, (o + 1) / 2),
        absDeriv(as, (o + 1) / 2));
    spl("C04", "Dx<order-1>", Dx<o - 1>{} * s, model::dderiv(ds, o - 1),
        absDeriv(as, o - 1));
    spl("C04", "Dx<order>", Dx<o>{} * s, model::dderiv(ds, o), absDeriv(as, o));
    spl("C04", "Dx<order+1>", Dx<o + 1>{} * s, model::dderiv(ds, o + 1),
        absDeriv(as, o + 1));
    spl("C04", "X<5>", X<5>{} * s, model::dmulx(ds, 5), absMulX(as, 5, pts));
    spl("C04", "X<1>", X<1>{} * s, model::dmulx(ds, 1), absMulX(as, 1, pts));
    spl("C04", "X<2>", X<2>{} * s, model::dmulx(ds, 2), absMulX(as, 2, pts));
    // ---- C05 operator expressions with high derivatives inside
    spl("C05", "expr-Dx2*Dx<order-2>", (Dx<2>{} * Dx<o - 2>{}) * s, model::dderiv(ds, o),
        absDeriv(as, o));
    spl("C05", "expr-commutator-Dx<order-1>-X",
        (Dx<o - 1>{} * X<1>{} - X<1>{} * Dx<o - 1>{}) * s,
        model::dsub(model::dderiv(model::dmulx(ds, 1), o - 1),
                    model::dmulx(model::dderiv(ds, o - 1), 1)),
        absAdd(absDeriv(absMulX(as, 1, pts), o - 1), absMulX(absDeriv(as, o - 1), 1, pts)));
    {
      const R c5 = genScalar(g, dyadic);
      spl("C05", "expr-c*Dx<half>+X", (mk<T>(c5) * Dx<(o + 1) / 2>{} + X<1>{}) * s,
          model::dadd(model::dscale(model::dderiv(ds, (o + 1) / 2), c5), model::dmulx(ds, 1)),
          absAdd(absScale(absDeriv(as, (o + 1) / 2), c5), absMulX(as, 1, pts)));
      spl("C05", "expr-neg-Dx<order-1>/2", (-Dx<o - 1>{} / 2) * s,
          model::dscale(model::dderiv(ds, o - 1), R(-1) / 2),
          absScale(absDeriv(as, o - 1), R(1) / 2));
    }
    // ---- C03 arithmetic
    spl("C03", "add", s + q, model::dadd(ds, dq), absAdd(as, aq));
    spl("C03", "add-commuted", q + s, model::dadd(ds, dq), absAdd(as, aq));
    spl("C03", "sub", q - s, model::dsub(dq, ds), absAdd(as, aq));
    spl("C03", "mul", s * q, model::dmul(ds, dq), absMul(as, aq));
    spl("C03", "mul-commuted", q * s, model::dmul(ds, dq), absMul(as, aq));
    const R cr = genScalar(g, dyadic);
    spl("C03", "scalar", mk<T>(cr) * s, model::dscale(ds, cr), absScale(as, cr));
    {
      Spline<T, o> t = s;
      t = q;  // lower order over an existing high-order value
      spl("C03", "cross-order-assign", t, dq, aq);
      t = s;
      t += q;
      t *= mk<T>(cr);
      spl("C03", "in-place-chain", t, model::dscale(model::dadd(ds, dq), cr),
          absScale(absAdd(as, aq), cr));
    }
    if (s.isZero() != model::dzerop(ds))
      c.violation("C15", "high-order/isZero/order" + std::to_string(o), ctx);
    {
      const std::string lie = predicateNearMisses(s, g);
      if (!lie.empty())
        c.violation("C15", "high-order/near-miss/order" + std::to_string(o), ctx + ": " + lie);
      c.count("pred:near-misses");
    }
    // ---- C07 linear forms
    auto lin = [&](const Den &d, const AbsM &a, size_t k0, size_t k1, R &ex, R &S) {
      ex = 0;
      S = 0;
      for (size_t k = k0; k + 1 < k1; k++) {
        ex += model::pintegral(d.pc[k], pts[k], pts[k + 1]);
        S += absIntegral(a[k], (pts[k + 1] - pts[k]) / 2);
      }
    };
    R ex, S;
    lin(ds, as, ws.start, ws.end, ex, S);
    sca("C07", "linear-identity", LinearForm{}(s), ex, S);
    lin(model::dmulx(ds, 2), absMulX(as, 2, pts), ws.start, ws.end, ex, S);
    sca("C07", "linear-X2", LinearForm{X<2>{}}(s), ex, S);
    lin(model::dderiv(ds, 1), absDeriv(as, 1), ws.start, ws.end, ex, S);
    sca("C07", "linear-Dx1", LinearForm{Dx<1>{}}(s), ex, S);
    lin(model::dderiv(ds, o - 2), absDeriv(as, o - 2), ws.start, ws.end, ex, S);
    sca("C07", "linear-Dx<order-2>", LinearForm{Dx<o - 2>{}}(s), ex, S);
    // ---- C06 bilinear forms
    auto bil = [&](const Den &l, const AbsM &la, const Den &r, const AbsM &ra,
                   size_t k0, size_t k1, R &ex2, R &S2) {
      ex2 = 0;
      S2 = 0;
      for (size_t k = k0; k + 1 < k1; k++) {
        ex2 += model::pintegral(model::pmul(l.pc[k], r.pc[k]), pts[k], pts[k + 1]);
        S2 += absIntegral(model::pmul(la[k], ra[k]), (pts[k + 1] - pts[k]) / 2);
      }
    };
    bil(ds, as, ds, as, ws.start, ws.end, ex, S);
    sca("C06", "scalar-product-self", ScalarProduct{}(s, s), ex, S);
    const size_t lo = std::max(ws.start, wq.start), hi = std::min(ws.end, wq.end);
    bil(ds, as, dq, aq, lo, hi > lo ? hi : lo, ex, S);
    sca("C06", "scalar-product", ScalarProduct{}(s, q), ex, S);
    bil(model::dmulx(ds, 1), absMulX(as, 1, pts), model::dderiv(dq, 1), absDeriv(aq, 1),
        lo, hi > lo ? hi : lo, ex, S);
    const T bf = BilinearForm{X<1>{}, Dx<1>{}}(s, q);
    sca("C06", "bilinear-X-Dx", bf, ex, S);
    if constexpr (ST<T>::exact) {
      if (!(LinearForm{}((X<1>{} * s) * (Dx<1>{} * q)) == bf))
        c.violation("C07", "high-order/bilinear-vs-linear-of-product/order" +
                               std::to_string(o), ctx);
      c.count("checked:bilinear-vs-linear-of-product");
    }
    if (!model::dzerop(ds)) {
      Hasher h;
      h.s(ctx);
      h.s(coefStr(cm));
      c.nontrivial(h.h);
      c.sample(ctx, 3);
    }
  } catch (const BSplineException &e) {
    c.violation("C03", "high-order/unexpected-throw/order" + std::to_string(o),
                ctx + " threw " + e.what());
  } catch (const std::exception &e) {
    c.violation("C03", "high-order/foreign-exception/order" + std::to_string(o),
                ctx + " threw " + e.what());
  }
}

template <typename T>
void runCase(Ctx &c) {
  Rng g = c.rng();
  switch (c.caseId % 13) {
    case 0: highCase<T, 11>(c, g); break;
    case 1: highCase<T, 12>(c, g); break;
    case 2: highCase<T, 15>(c, g); break;
    case 3: highCase<T, 16>(c, g); break;
    case 4: highCase<T, 17>(c, g); break;
    case 5: highCase<T, 20>(c, g); break;
    case 6: highCase<T, 24>(c, g); break;
    case 7: highCase<T, 31>(c, g); break;
    case 8: highCase<T, 32>(c, g); break;
    case 9: highCase<T, 33>(c, g); break;
    case 10: highCase<T, 40>(c, g); break;
    case 11: highCase<T, 48>(c, g); break;
    default: highCase<T, 64>(c, g);
  }
}

}  // namespace

int main(int argc, char **argv) {
  return driverMain(argc, argv, "high", ST<VT>::name(), runCase<VT>);
}
