// Archetype exact scalar for okruz/BSplinebasis (harness side).
//
// vq::Q offers exactly what include/bspline/Spline.h documents as the
// requirements on the data type: default/copy construction, construction from
// an int through static_cast (explicit constructor), + - * / with compound
// forms, unary minus and the six comparisons. Nothing else: no implicit
// conversion from built-in numbers, no <cmath> overloads, no numeric_limits
// specialisation, no operator<<. The value can only be reached through
// vq::peek / vq::make, which the library cannot know about.
#ifndef VERIF_VQ_H
#define VERIF_VQ_H

#include <boost/multiprecision/cpp_int.hpp>

#include <atomic>
#include <cstdint>
#include <type_traits>

namespace vq {

using R = boost::multiprecision::number<
    boost::multiprecision::rational_adaptor<
        boost::multiprecision::cpp_int_backend<>>,
    boost::multiprecision::et_off>;
using Z = boost::multiprecision::number<
    boost::multiprecision::cpp_int_backend<>, boost::multiprecision::et_off>;

// Run-time counters of the operations the library actually used (evidence for
// C19). Relaxed atomics; compiled out with -DVQ_NO_COUNT (TSan builds).
struct OpCounts {
  std::atomic<uint64_t> from_int{0}, add{0}, sub{0}, mul{0}, div{0}, neg{0},
      cmp{0}, copy{0};
  // reads of a default-constructed (indeterminate) value; always counted
  std::atomic<uint64_t> poison{0};
  // constructions from an integer value that does not fit an int: the
  // documented requirement is static_cast<T>(int); always counted
  std::atomic<uint64_t> bigint{0};
};
inline OpCounts &counts() {
  static OpCounts c;
  return c;
}
#ifdef VQ_NO_COUNT
#define VQ_COUNT(f) \
  do {              \
  } while (false)
#else
#define VQ_COUNT(f) \
  ::vq::counts().f.fetch_add(1, std::memory_order_relaxed)
#endif

// A default-constructed Q is *indeterminate*, like a default-initialised
// built-in number: the documented requirements ask for default
// constructibility, not for T() == 0. It holds an absurd sentinel and every
// read of it (arithmetic, comparison, harness access) is counted, so that
// code relying on "value-initialised means zero" is noticed.
class Q final {
 private:
  R _v;
  bool _poison = false;
  struct Raw {};
  Q(Raw, R v) : _v(std::move(v)) {}
  static void touched(const Q &a) {
    if (a._poison) counts().poison.fetch_add(1, std::memory_order_relaxed);
  }
  static void touched(const Q &a, const Q &b) {
    touched(a);
    touched(b);
  }
  friend const R &peek(const Q &q);
  friend Q make(R v);

 public:
  Q() : _v(R(7777777) / R(3)), _poison(true) {}
  // "Construction from an integer through static_cast": any built-in integer
  // type, explicit only.
  template <typename I, std::enable_if_t<std::is_integral_v<I>, bool> = true>
  explicit Q(I v) : _v(v) {
    VQ_COUNT(from_int);
    // a type that really offers only T(int) would receive a truncated value
    if constexpr (sizeof(I) > sizeof(int) ||
                  (sizeof(I) == sizeof(int) && std::is_unsigned_v<I>)) {
      bool big = v > static_cast<I>(2147483647);
      if constexpr (std::is_signed_v<I>) big = big || v < static_cast<I>(-2147483647 - 1);
      if (big) counts().bigint.fetch_add(1, std::memory_order_relaxed);
    }
  }
  Q(const Q &) = default;
  Q(Q &&) = default;
  Q &operator=(const Q &) = default;
  Q &operator=(Q &&) = default;
  ~Q() = default;

  // A floating-point value must not convert at all (otherwise
  // static_cast<Q>(0.5) would silently go through int).
  template <typename F,
            std::enable_if_t<std::is_floating_point_v<F>, bool> = true>
  Q(F) = delete;

  Q &operator+=(const Q &o) {
    VQ_COUNT(add);
    touched(*this, o);
    _v += o._v;
    return *this;
  }
  Q &operator-=(const Q &o) {
    VQ_COUNT(sub);
    touched(*this, o);
    _v -= o._v;
    return *this;
  }
  Q &operator*=(const Q &o) {
    VQ_COUNT(mul);
    touched(*this, o);
    _v *= o._v;
    return *this;
  }
  Q &operator/=(const Q &o) {
    VQ_COUNT(div);
    touched(*this, o);
    _v /= o._v;
    return *this;
  }
  friend Q operator+(const Q &a, const Q &b) {
    VQ_COUNT(add);
    touched(a, b);
    return Q(Raw{}, a._v + b._v);
  }
  friend Q operator-(const Q &a, const Q &b) {
    VQ_COUNT(sub);
    touched(a, b);
    return Q(Raw{}, a._v - b._v);
  }
  friend Q operator*(const Q &a, const Q &b) {
    VQ_COUNT(mul);
    touched(a, b);
    return Q(Raw{}, a._v * b._v);
  }
  friend Q operator/(const Q &a, const Q &b) {
    VQ_COUNT(div);
    touched(a, b);
    return Q(Raw{}, a._v / b._v);
  }
  Q operator-() const {
    VQ_COUNT(neg);
    touched(*this);
    return Q(Raw{}, -_v);
  }
  friend bool operator==(const Q &a, const Q &b) {
    VQ_COUNT(cmp);
    touched(a, b);
    return a._v == b._v;
  }
  friend bool operator!=(const Q &a, const Q &b) {
    VQ_COUNT(cmp);
    touched(a, b);
    return a._v != b._v;
  }
  friend bool operator<(const Q &a, const Q &b) {
    VQ_COUNT(cmp);
    touched(a, b);
    return a._v < b._v;
  }
  friend bool operator<=(const Q &a, const Q &b) {
    VQ_COUNT(cmp);
    touched(a, b);
    return a._v <= b._v;
  }
  friend bool operator>(const Q &a, const Q &b) {
    VQ_COUNT(cmp);
    touched(a, b);
    return a._v > b._v;
  }
  friend bool operator>=(const Q &a, const Q &b) {
    VQ_COUNT(cmp);
    touched(a, b);
    return a._v >= b._v;
  }
};

inline const R &peek(const Q &q) {
  Q::touched(q);
  return q._v;
}
inline Q make(R v) { return Q(Q::Raw{}, std::move(v)); }

}  // namespace vq

// "no numeric_limits": std::numeric_limits is deliberately NOT specialised for
// the archetype. As for any user-defined scalar without a specialisation, the
// primary template then answers epsilon(), min(), max() ... with Q(), i.e. with
// an indeterminate value whose every read is counted (see above): code that
// consults numeric_limits compiles, but is noticed as soon as it runs.
#endif
