// Archetype exact scalar for okruz/BSplinebasis (harness side).
//
// vq::Q offers exactly what include/bspline/Spline.h documents as the
// requirements on the data type: default/copy construction, construction from
// an int through static_cast (explicit constructor), + - * / with compound
// forms, unary minus and the six comparisons. Nothing else: no implicit
// conversion from built-in numbers, no <cmath> overloads, no numeric_limits
// specialisation, no operator<<. The value can only be reached through
// vq::peek / vq::make, which the library cannot know about.
#ifndef VERIF_VQ_H
#define VERIF_VQ_H

#include <boost/multiprecision/cpp_int.hpp>

#include <atomic>
#include <cstdint>
#include <limits>
#include <type_traits>

namespace vq {

using R = boost::multiprecision::number<
    boost::multiprecision::rational_adaptor<
        boost::multiprecision::cpp_int_backend<>>,
    boost::multiprecision::et_off>;
using Z = boost::multiprecision::number<
    boost::multiprecision::cpp_int_backend<>, boost::multiprecision::et_off>;

// Run-time counters of the operations the library actually used (evidence for
// C19). Relaxed atomics; compiled out with -DVQ_NO_COUNT (TSan builds).
struct OpCounts {
  std::atomic<uint64_t> from_int{0}, add{0}, sub{0}, mul{0}, div{0}, neg{0},
      cmp{0}, copy{0};
};
inline OpCounts &counts() {
  static OpCounts c;
  return c;
}
#ifdef VQ_NO_COUNT
#define VQ_COUNT(f) \
  do {              \
  } while (false)
#else
#define VQ_COUNT(f) \
  ::vq::counts().f.fetch_add(1, std::memory_order_relaxed)
#endif

class Q final {
 private:
  R _v;
  struct Raw {};
  Q(Raw, R v) : _v(std::move(v)) {}
  friend const R &peek(const Q &q);
  friend Q make(R v);

 public:
  Q() : _v(0) {}
  // "Construction from an integer through static_cast": any built-in integer
  // type, explicit only.
  template <typename I, std::enable_if_t<std::is_integral_v<I>, bool> = true>
  explicit Q(I v) : _v(v) {
    VQ_COUNT(from_int);
  }
  Q(const Q &) = default;
  Q(Q &&) = default;
  Q &operator=(const Q &) = default;
  Q &operator=(Q &&) = default;
  ~Q() = default;

  // A floating-point value must not convert at all (otherwise
  // static_cast<Q>(0.5) would silently go through int).
  template <typename F,
            std::enable_if_t<std::is_floating_point_v<F>, bool> = true>
  Q(F) = delete;

  Q &operator+=(const Q &o) {
    VQ_COUNT(add);
    _v += o._v;
    return *this;
  }
  Q &operator-=(const Q &o) {
    VQ_COUNT(sub);
    _v -= o._v;
    return *this;
  }
  Q &operator*=(const Q &o) {
    VQ_COUNT(mul);
    _v *= o._v;
    return *this;
  }
  Q &operator/=(const Q &o) {
    VQ_COUNT(div);
    _v /= o._v;
    return *this;
  }
  friend Q operator+(const Q &a, const Q &b) {
    VQ_COUNT(add);
    return Q(Raw{}, a._v + b._v);
  }
  friend Q operator-(const Q &a, const Q &b) {
    VQ_COUNT(sub);
    return Q(Raw{}, a._v - b._v);
  }
  friend Q operator*(const Q &a, const Q &b) {
    VQ_COUNT(mul);
    return Q(Raw{}, a._v * b._v);
  }
  friend Q operator/(const Q &a, const Q &b) {
    VQ_COUNT(div);
    return Q(Raw{}, a._v / b._v);
  }
  Q operator-() const {
    VQ_COUNT(neg);
    return Q(Raw{}, -_v);
  }
  friend bool operator==(const Q &a, const Q &b) {
    VQ_COUNT(cmp);
    return a._v == b._v;
  }
  friend bool operator!=(const Q &a, const Q &b) {
    VQ_COUNT(cmp);
    return a._v != b._v;
  }
  friend bool operator<(const Q &a, const Q &b) {
    VQ_COUNT(cmp);
    return a._v < b._v;
  }
  friend bool operator<=(const Q &a, const Q &b) {
    VQ_COUNT(cmp);
    return a._v <= b._v;
  }
  friend bool operator>(const Q &a, const Q &b) {
    VQ_COUNT(cmp);
    return a._v > b._v;
  }
  friend bool operator>=(const Q &a, const Q &b) {
    VQ_COUNT(cmp);
    return a._v >= b._v;
  }
};

inline const R &peek(const Q &q) { return q._v; }
inline Q make(R v) { return Q(Q::Raw{}, std::move(v)); }

}  // namespace vq

// "no numeric_limits": the specialisation exists but offers nothing, so any
// use of std::numeric_limits<T>::epsilon()/min()/max()/... with the archetype
// fails to compile instead of silently yielding T().
namespace std {
template <>
class numeric_limits<vq::Q> {
 public:
  static constexpr bool is_specialized = false;
};
}  // namespace std
#endif
