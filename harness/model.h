// Reference model (harness side, includes no library header).
//
// A denotation is a total function on the intervals of a whole grid: for every
// interval k an exact polynomial in the GLOBAL variable x (coefficients over
// exact rationals, about the origin); the empty polynomial is zero. The
// library stores pieces about each interval's midpoint, so a bug in a midpoint
// re-expansion cannot cancel between code and oracle.
#ifndef VERIF_MODEL_H
#define VERIF_MODEL_H

#include <algorithm>
#include <cstddef>
#include <sstream>
#include <string>
#include <vector>

#include "vq.h"

namespace model {
using vq::R;
using Poly = std::vector<R>;  // p[k] * x^k ; trailing zeros allowed

inline void trim(Poly &p) {
  while (!p.empty() && p.back() == 0) p.pop_back();
}
inline bool pzero(const Poly &p) {
  for (const auto &c : p)
    if (c != 0) return false;
  return true;
}
inline bool peq(const Poly &a, const Poly &b) {
  const size_t n = std::max(a.size(), b.size());
  for (size_t i = 0; i < n; i++) {
    const bool ha = i < a.size(), hb = i < b.size();
    if (ha && hb) {
      if (a[i] != b[i]) return false;
    } else if (ha) {
      if (a[i] != 0) return false;
    } else if (b[i] != 0)
      return false;
  }
  return true;
}
inline Poly padd(const Poly &a, const Poly &b) {
  Poly r(std::max(a.size(), b.size()), R(0));
  for (size_t i = 0; i < a.size(); i++) r[i] += a[i];
  for (size_t i = 0; i < b.size(); i++) r[i] += b[i];
  return r;
}
inline Poly pscale(const Poly &a, const R &c) {
  Poly r(a);
  for (auto &x : r) x *= c;
  return r;
}
inline Poly psub(const Poly &a, const Poly &b) {
  return padd(a, pscale(b, R(-1)));
}
inline Poly pmul(const Poly &a, const Poly &b) {
  if (a.empty() || b.empty()) return {};
  Poly r(a.size() + b.size() - 1, R(0));
  for (size_t i = 0; i < a.size(); i++)
    for (size_t j = 0; j < b.size(); j++) r[i + j] += a[i] * b[j];
  return r;
}
inline Poly pderiv(const Poly &a, size_t n = 1) {
  Poly r(a);
  for (size_t k = 0; k < n; k++) {
    if (r.empty()) return r;
    Poly d(r.size() - 1, R(0));
    for (size_t i = 1; i < r.size(); i++) d[i - 1] = r[i] * R(i);
    r = std::move(d);
  }
  return r;
}
inline Poly pmulx(const Poly &a, size_t n) {
  if (a.empty()) return {};
  Poly r(a.size() + n, R(0));
  for (size_t i = 0; i < a.size(); i++) r[i + n] = a[i];
  return r;
}
inline R peval(const Poly &a, const R &x) {
  R r(0);
  for (size_t i = a.size(); i-- > 0;) r = r * x + a[i];
  return r;
}
// q(x) = p(x + a): Taylor shift by repeated synthetic division.
inline Poly pshift(const Poly &p, const R &a) {
  Poly r(p);
  const size_t n = r.size();
  for (size_t i = 0; i < n; i++)
    for (size_t j = n - 1; j > i; j--) r[j - 1] += a * r[j];
  return r;
}
inline R pintegral(const Poly &p, const R &a, const R &b) {
  // antiderivative at the two end points
  Poly F(p.size() + 1, R(0));
  for (size_t i = 0; i < p.size(); i++) F[i + 1] = p[i] / R(i + 1);
  return peval(F, b) - peval(F, a);
}
inline std::string rstr(const R &r) {
  std::ostringstream os;
  os << r;
  return os.str();
}
inline std::string pstr(const Poly &p) {
  std::string s = "[";
  for (size_t i = 0; i < p.size(); i++) {
    if (i) s += ",";
    s += rstr(p[i]);
  }
  return s + "]";
}

// ---------------------------------------------------------------------
struct Den {
  std::vector<R> grid;   // all points of the whole grid
  std::vector<Poly> pc;  // grid.size()-1 pieces, global coordinates
  size_t nint() const { return pc.size(); }
};

inline Den dzero(const std::vector<R> &grid) {
  Den d;
  d.grid = grid;
  d.pc.assign(grid.size() - 1, Poly{});
  return d;
}
inline bool deq(const Den &a, const Den &b, size_t *where = nullptr) {
  if (a.grid != b.grid) {
    if (where) *where = size_t(-1);
    return false;
  }
  for (size_t k = 0; k < a.pc.size(); k++)
    if (!peq(a.pc[k], b.pc[k])) {
      if (where) *where = k;
      return false;
    }
  return true;
}
inline bool dzerop(const Den &a) {
  for (const auto &p : a.pc)
    if (!pzero(p)) return false;
  return true;
}
template <typename F>
inline Den dmap2(const Den &a, const Den &b, F f) {
  Den r;
  r.grid = a.grid;
  r.pc.resize(a.pc.size());
  for (size_t k = 0; k < a.pc.size(); k++) r.pc[k] = f(a.pc[k], b.pc[k]);
  return r;
}
template <typename F>
inline Den dmap(const Den &a, F f) {
  Den r;
  r.grid = a.grid;
  r.pc.resize(a.pc.size());
  for (size_t k = 0; k < a.pc.size(); k++) r.pc[k] = f(a.pc[k]);
  return r;
}
inline Den dadd(const Den &a, const Den &b) { return dmap2(a, b, padd); }
inline Den dsub(const Den &a, const Den &b) { return dmap2(a, b, psub); }
inline Den dmul(const Den &a, const Den &b) { return dmap2(a, b, pmul); }
inline Den dscale(const Den &a, const R &c) {
  return dmap(a, [&](const Poly &p) { return pscale(p, c); });
}
inline Den dderiv(const Den &a, size_t n) {
  return dmap(a, [&](const Poly &p) { return pderiv(p, n); });
}
inline Den dmulx(const Den &a, size_t n) {
  return dmap(a, [&](const Poly &p) { return pmulx(p, n); });
}
// integral over the intervals [k0,k1)
inline R dintegral(const Den &a, size_t k0, size_t k1) {
  R r(0);
  for (size_t k = k0; k < k1; k++)
    r += pintegral(a.pc[k], a.grid[k], a.grid[k + 1]);
  return r;
}
inline std::string dstr(const Den &a) {
  std::string s = "{grid:[";
  for (size_t i = 0; i < a.grid.size(); i++) {
    if (i) s += ",";
    s += rstr(a.grid[i]);
  }
  s += "],pieces:[";
  for (size_t k = 0; k < a.pc.size(); k++) {
    if (k) s += ",";
    Poly p = a.pc[k];
    trim(p);
    s += pstr(p);
  }
  return s + "]}";
}

// ---------------------------------------------------------------------
// Cox-de Boor recursion on a knot vector, terms with zero-width denominator
// dropped. Returns B_{i,p} as a denotation over the grid of distinct knots.
inline std::vector<R> distinct(const std::vector<R> &knots) {
  std::vector<R> g;
  for (const auto &t : knots)
    if (g.empty() || g.back() != t) g.push_back(t);
  return g;
}

inline std::vector<Den> coxDeBoor(const std::vector<R> &t, size_t p) {
  const std::vector<R> grid = distinct(t);
  const size_t m = t.size();
  // order 0
  std::vector<Den> cur;
  for (size_t i = 0; i + 1 < m; i++) {
    Den d = dzero(grid);
    if (t[i] < t[i + 1]) {
      // indicator of [t_i, t_{i+1}) == exactly one grid interval
      for (size_t k = 0; k + 1 < grid.size(); k++)
        if (grid[k] == t[i]) d.pc[k] = Poly{R(1)};
    }
    cur.push_back(std::move(d));
  }
  for (size_t q = 1; q <= p; q++) {
    std::vector<Den> nxt;
    for (size_t i = 0; i + q + 1 < m; i++) {
      Den d = dzero(grid);
      if (t[i + q] > t[i]) {
        const R w = R(1) / (t[i + q] - t[i]);
        // (x - t_i) * w
        const Poly lin{-t[i] * w, w};
        d = dadd(d, dmap(cur[i], [&](const Poly &b) { return pmul(lin, b); }));
      }
      if (t[i + q + 1] > t[i + 1]) {
        const R w = R(1) / (t[i + q + 1] - t[i + 1]);
        const Poly lin{t[i + q + 1] * w, -w};
        d = dadd(d,
                 dmap(cur[i + 1], [&](const Poly &b) { return pmul(lin, b); }));
      }
      nxt.push_back(std::move(d));
    }
    cur = std::move(nxt);
  }
  return cur;
}

// Second, value-based evaluation of B_{i,p}(x) for x in the half-open interval
// [grid_k, grid_{k+1}) (used to cross-check the model itself).
inline R coxDeBoorValue(const std::vector<R> &t, size_t i, size_t p,
                        const R &x) {
  if (p == 0) return (t[i] <= x && x < t[i + 1]) ? R(1) : R(0);
  R r(0);
  if (t[i + p] > t[i])
    r += (x - t[i]) / (t[i + p] - t[i]) * coxDeBoorValue(t, i, p - 1, x);
  if (t[i + p + 1] > t[i + 1])
    r += (t[i + p + 1] - x) / (t[i + p + 1] - t[i + 1]) *
         coxDeBoorValue(t, i + 1, p - 1, x);
  return r;
}

}  // namespace model
#endif
