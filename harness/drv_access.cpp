// C13: support windows form the expected interval algebra over the grid
// (exhaustive small scope), and C09 second sentence: bounds-checked accessors
// throw for every index outside the view, including indices close to the
// largest representable value.
//
// case k <-> (grid size n, first window A); all windows B and C are enumerated
// inside the case, so a run over all cases is exhaustive for n <= N.
#include "lib.h"
#include "scalar.h"

using namespace vf;
using bspline::exceptions::BSplineException;
using bspline::support::Grid;
using bspline::support::Support;

namespace {

std::vector<Win> allWindows(size_t n) {
  std::vector<Win> w{Win{0, 0}};
  for (size_t s = 0; s < n; s++)
    for (size_t e = s + 1; e <= n; e++) w.push_back(Win{s, e});
  return w;
}
Win hull(const Win &a, const Win &b) {
  if (a.empty()) return b;
  if (b.empty()) return a;
  return Win{std::min(a.start, b.start), std::max(a.end, b.end)};
}
Win meet(const Win &a, const Win &b) {
  if (a.empty() || b.empty()) return Win{0, 0};
  const size_t s = std::max(a.start, b.start), e = std::min(a.end, b.end);
  return s < e ? Win{s, e} : Win{0, 0};
}
bool sameWin(const Win &a, const Win &b) {
  return (a.start == b.start && a.end == b.end) || (a.empty() && b.empty());
}
template <typename T>
Win winOfS(const Support<T> &s) {
  return Win{s.getStartIndex(), s.getEndIndex()};
}

template <typename T>
struct Access {
  Ctx &c;
  size_t n;
  std::vector<R> pts;
  Grid<T> grid, twin;
  std::vector<Win> wins;

  Access(Ctx &ctx, size_t nn)
      : c(ctx), n(nn), pts(mkPts(nn)), grid(mkVec<T>(pts)), twin(mkVec<T>(pts)),
        wins(allWindows(nn)) {}
  static std::vector<R> mkPts(size_t n) {
    std::vector<R> p;
    for (size_t i = 0; i < n; i++) p.push_back(R((long)i * 3 - 4) / 2);
    return p;
  }
  Support<T> sup(const Win &w, bool onTwin = false) const {
    return Support<T>(onTwin ? twin : grid, w.start, w.end);
  }
  std::string ctx(const Win &a) const {
    return "grid of " + std::to_string(n) + " points, window " + winStr(a);
  }
  void bad(const char *prop, const std::string &key, const std::string &what) {
    c.violation(prop, key, what);
  }

  // --------------------------------------------------- algebra: pairs/triples
  // Iterators and references handed out by a support stay valid and keep
  // describing the same window while const operations (comparisons, union,
  // intersection - also with supports on an equal grid held in another
  // instance) are performed on it.
  void referenceStability(const Win &A) {
    if (A.empty()) return;
    const Support<T> sa = sup(A);
    const T *front0 = &sa.front(), *back0 = &sa.back(), *at0 = &sa.at(0);
    const auto b0 = sa.begin(), e0 = sa.end();
    const auto data0 = sa.getGrid().getData();
    for (const Win &B : wins) {
      const Support<T> sb = sup(B, true);  // equal twin instance
      (void)(sa == sb);
      (void)sa.hasSameGrid(sb);
      (void)sa.calcUnion(sb);
      (void)sb.calcIntersection(sa);
      (void)(sa.getGrid() == sb.getGrid());
    }
    if (&sa.front() != front0 || &sa.back() != back0 || &sa.at(0) != at0 ||
        sa.begin() != b0 || sa.end() != e0 ||
        (size_t)(sa.end() - b0) != A.end - A.start ||
        sa.getGrid().getData() != data0) {
      bad("C13", "references-invalidated-by-const-operation", ctx(A));
      bad("C14", "support-storage-changed-by-const-operation", ctx(A));
    }
    c.count("reference-stability");
    // assignment between interval-free supports on different grids moves the
    // grid along
    {
      std::vector<R> other = pts;
      other.back() += 1;
      const Grid<T> cousin(mkVec<T>(other));
      Support<T> x = Support<T>::createEmpty(cousin);
      x = Support<T>::createEmpty(grid);  // move assignment from a temporary
      Support<T> y = Support<T>::createEmpty(cousin);
      Support<T> z = Support<T>::createEmpty(grid);
      y = std::move(z);
      Support<T> w = Support<T>::createEmpty(cousin);
      w = sup(Win{0, 0});  // copy assignment
      for (const Support<T> *p : {&x, &y, &w})
        if (!p->hasSameGrid(sa) || !(p->getGrid() == grid) || p->getGrid() == cousin ||
            outcome([&] {
              if (!(p->calcUnion(sa) == sa)) throw 1;
            }) != 0)
          bad("C13", "empty-support-assignment-keeps-old-grid", ctx(A));
      c.count("empty-assignment-across-grids");
    }
  }

  void algebra(const Win &A) {
    const Support<T> sa = sup(A);
    for (const Win &B : wins) {
      for (int tw = 0; tw < 2; tw++) {
        const Support<T> sb = sup(B, tw == 1);
        const Win eu = hull(A, B), ei = meet(A, B);
        const Support<T> u = sa.calcUnion(sb), ub = sb.calcUnion(sa);
        const Support<T> in = sa.calcIntersection(sb),
                         inb = sb.calcIntersection(sa);
        const std::string d = ctx(A) + " with " + winStr(B) +
                              (tw ? " (equal twin grid)" : "");
        if (!sameWin(winOfS(u), eu))
          bad("C13", "union", d + ": union " + winStr(winOfS(u)) +
                                  " expected " + winStr(eu));
        if (!sameWin(winOfS(in), ei))
          bad("C13", "intersection", d + ": intersection " +
                                         winStr(winOfS(in)) + " expected " +
                                         winStr(ei));
        if (!(u == ub) || u != ub || !sameWin(winOfS(ub), eu))
          bad("C13", "union-commutativity", d);
        if (!(in == inb) || in != inb || !sameWin(winOfS(inb), ei))
          bad("C13", "intersection-commutativity", d);
        const bool eq = sameWin(A, B);
        if ((sa == sb) != eq || (sb == sa) != eq || (sa != sb) == eq)
          bad("C13", "equality", d + ": == is " +
                                     ((sa == sb) ? "true" : "false"));
        // canonical form of results: a valid window of the same grid
        for (const Support<T> *r : {&u, &in}) {
          const Win w = winOfS(*r);
          if (!((w.start == 0 && w.end == 0) || (w.start < w.end && w.end <= n)) ||
              !r->hasSameGrid(sa))
            bad("C13", "result-not-a-window", d);
        }
        c.count("pairs");
        if (tw == 0) {
          for (const Win &C : wins) {
            const Support<T> sc = sup(C);
            const Support<T> l = u.calcUnion(sc),
                             r = sa.calcUnion(sb.calcUnion(sc));
            if (!(l == r) || !sameWin(winOfS(l), hull(eu, C)))
              bad("C13", "union-associativity", d + " and " + winStr(C));
            const Support<T> li = in.calcIntersection(sc),
                             ri = sa.calcIntersection(sb.calcIntersection(sc));
            if (!(li == ri) || !sameWin(winOfS(li), meet(ei, C)))
              bad("C13", "intersection-associativity", d + " and " + winStr(C));
            c.count("triples");
          }
        }
      }
    }
    if (!(sa.calcUnion(sa) == sa) || !(sa.calcIntersection(sa) == sa) ||
        !sameWin(winOfS(sa.calcUnion(sa)), A) ||
        !sameWin(winOfS(sa.calcIntersection(sa)), A))
      bad("C13", "idempotence", ctx(A));
  }

  // ------------------------------------------------ indices and accessors
  std::vector<size_t> probeIndices(const Win &A) const {
    std::vector<size_t> v;
    for (size_t i = 0; i <= n + 2; i++) v.push_back(i);
    const size_t top = ~size_t(0);
    v.push_back(top / 2);      // 2^63 - 1
    v.push_back(top / 2 + 1);  // 2^63
    // values that alias a small index when truncated to 8, 16 or 32 bits
    for (size_t base : {(size_t)1 << 8, (size_t)1 << 16, (size_t)1 << 31,
                        (size_t)1 << 32, (size_t)1 << 33, (size_t)1 << 48})
      for (size_t k = 0; k <= n + 1; k++) {
        v.push_back(base + k);
        if (k && base > k) v.push_back(base - k);
      }
    for (size_t k = 0; k <= n + 2; k++) v.push_back(top - k);
    // indices that wrap back into the view when start is added
    const size_t size = A.end - A.start;
    if (A.start > 0)
      for (size_t j = 0; j < size; j++) v.push_back(top - A.start + 1 + j);
    return v;
  }

  template <typename F>
  static int outcome(F &&f) {  // 0 returned, 1 library exception, 2 foreign
    try {
      f();
      return 0;
    } catch (const BSplineException &) {
      return 1;
    } catch (...) {
      return 2;
    }
  }

  void indices(const Win &A) {
    const Support<T> s = sup(A);
    const size_t size = A.end - A.start;
    const size_t nint = size >= 2 ? size - 1 : 0;
    // the accessors that describe the window
    size_t iter = 0;
    bool iterOk = true;
    for (auto it = s.begin(); it != s.end(); ++it, ++iter)
      if (iter < size && !sameBits(*it, grid[A.start + iter])) iterOk = false;
    if (s.size() != size || s.numberOfIntervals() != nint ||
        s.containsIntervals() != (size > 1) || s.empty() != (size == 0) ||
        iter != size || !iterOk || s.getStartIndex() != A.start ||
        s.getEndIndex() != A.end)
      bad("C13", "size-iteration", ctx(A));
    if (size == 0) {
      if (outcome([&] { (void)s.front(); }) != 1 ||
          outcome([&] { (void)s.back(); }) != 1) {
        bad("C09", "front-back-on-empty-view", ctx(A));
        bad("C13", "front-back-on-empty-view", ctx(A));
      }
    } else if (!sameBits(s.front(), grid[A.start]) ||
               !sameBits(s.back(), grid[A.end - 1]))
      bad("C13", "front-back", ctx(A));
    for (size_t i : probeIndices(A)) {
      const std::string d = ctx(A) + " index " + std::to_string(i);
      // absolute -> relative (grid points)
      const bool inPts = i >= A.start && i < A.end;
      const auto rp = s.relativeFromAbsolute(i);
      if (rp.has_value() != inPts || (inPts && *rp != i - A.start))
        bad("C13", "relativeFromAbsolute", d);
      // absolute -> relative (intervals)
      const bool inInt = i >= A.start && A.end >= 2 && i < A.end - 1;
      const auto ri = s.intervalIndexFromAbsolute(i);
      if (ri.has_value() != inInt || (inInt && *ri != i - A.start))
        bad("C13", "intervalIndexFromAbsolute", d);
      // relative -> absolute (checked)
      const bool inRel = i < size;
      size_t abs = 0;
      const int o1 = outcome([&] { abs = s.absoluteFromRelative(i); });
      if (inRel ? (o1 != 0 || abs != A.start + i) : (o1 != 1)) {
        bad("C09", "absoluteFromRelative-bounds", d);
        bad("C13", "absoluteFromRelative", d);
      }
      // mutually inverse on contained indices
      if (inRel && o1 == 0) {
        const auto back = s.relativeFromAbsolute(abs);
        if (!back || *back != i) bad("C13", "conversions-not-inverse", d);
      }
      if (inPts && rp && outcome([&] {
            if (s.absoluteFromRelative(*rp) != i) throw 1;
          }) != 0)
        bad("C13", "conversions-not-inverse", d);
      // checked element access
      T val{};
      const int o2 = outcome([&] { val = s.at(i); });
      if (inRel ? (o2 != 0 || !sameBits(val, grid[A.start + i]) ||
                   !sameBits(s[i], grid[A.start + i]))
                : (o2 != 1)) {
        bad("C09", "Support-at-bounds", d + (o2 == 0 ? " returned a value"
                                                      : " wrong outcome"));
        bad("C13", "Support-at", d);
      }
      // grid
      const int o3 = outcome([&] { val = grid.at(i); });
      if (i < n ? (o3 != 0 || !sameBits(val, grid[i])) : (o3 != 1))
        bad("C09", "Grid-at-bounds", d);
      c.count("index-probes");
      if (!inRel || !inPts) c.count("index-probes:outside");
      if (i > (~size_t(0)) / 2) c.count("index-probes:near-SIZE_MAX");
    }
  }
};

// Beyond the exhaustive scope: random windows on grids whose size crosses the
// 8-bit and 16-bit boundaries (300 and 70 000 points).
template <typename T>
void largeCase(Ctx &c, size_t n) {
  static std::optional<Grid<T>> big300, big70000;
  std::optional<Grid<T>> &slotG = n == 300 ? big300 : big70000;
  if (!slotG) {
    std::vector<T> p;
    for (size_t i = 0; i < n; i++) p.push_back(mk<T>((long)i - 1000, 4));
    slotG.emplace(std::move(p));
  }
  const Grid<T> &grid = *slotG;
  Rng g = c.rng();
  auto rndWin = [&]() {
    if (g.chance(1, 6)) return Win{0, 0};
    // windows hugging the 255/256 and 65535/65536 boundaries half of the time
    size_t s, e;
    if (g.chance(1, 2)) {
      const size_t b = (n > 65536 && g.chance(1, 2)) ? 65536 : 256;
      s = b - (size_t)g.range(0, 3) - (g.chance(1, 2) ? 0 : (size_t)g.range(0, 40));
      e = b + (size_t)g.range(-1, 3) + (g.chance(1, 2) ? 0 : (size_t)g.range(0, 40));
      if (e <= s) e = s + 1;
      if (e > n) e = n;
    } else {
      s = g.below(n);
      e = (size_t)g.range((int64_t)s + 1, (int64_t)n);
    }
    return Win{s, e};
  };
  for (int it = 0; it < 40; it++) {
    const Win A = rndWin(), B = rndWin(), C = rndWin();
    const Support<T> sa(grid, A.start, A.end), sb(grid, B.start, B.end),
        sc(grid, C.start, C.end);
    const std::string d = "grid of " + std::to_string(n) + " points, windows " +
                          winStr(A) + " " + winStr(B) + " " + winStr(C);
    const Support<T> u = sa.calcUnion(sb), in = sa.calcIntersection(sb);
    if (!sameWin(winOfS(u), hull(A, B)) || !sameWin(winOfS(sb.calcUnion(sa)), hull(A, B)))
      c.violation("C13", "large-grid/union", d + " got " + winStr(winOfS(u)));
    if (!sameWin(winOfS(in), meet(A, B)) ||
        !sameWin(winOfS(sb.calcIntersection(sa)), meet(A, B)))
      c.violation("C13", "large-grid/intersection", d + " got " + winStr(winOfS(in)));
    if (!sameWin(winOfS(u.calcUnion(sc)), hull(hull(A, B), C)) ||
        !sameWin(winOfS(in.calcIntersection(sc)), meet(meet(A, B), C)))
      c.violation("C13", "large-grid/associativity", d);
    if ((sa == sb) != sameWin(A, B) || (sa != sb) == sameWin(A, B))
      c.violation("C13", "large-grid/equality", d);
    const size_t size = A.end - A.start;
    size_t iter = 0;
    for (auto itp = sa.begin(); itp != sa.end(); ++itp) iter++;
    if (sa.size() != size || iter != size ||
        sa.numberOfIntervals() != (size >= 2 ? size - 1 : 0) ||
        sa.containsIntervals() != (size > 1) || sa.empty() != (size == 0))
      c.violation("C13", "large-grid/size-iteration", d);
    // index conversions around the window edges and around 256 / 65536
    std::vector<size_t> probe{0, 1, 254, 255, 256, 257, 65534, 65535, 65536, 65537,
                              n - 1, n, n + 1, ~size_t(0), ((size_t)1 << 32) + A.start};
    for (size_t e : {A.start, A.end})
      for (int k = -2; k <= 2; k++)
        if ((long)e + k >= 0) probe.push_back(e + (size_t)k);
    for (size_t i : probe) {
      const bool inPts = i >= A.start && i < A.end;
      const auto rp = sa.relativeFromAbsolute(i);
      const bool inInt = i >= A.start && A.end >= 2 && i < A.end - 1;
      const auto ri = sa.intervalIndexFromAbsolute(i);
      if (rp.has_value() != inPts || (inPts && *rp != i - A.start) ||
          ri.has_value() != inInt || (inInt && *ri != i - A.start))
        c.violation("C13", "large-grid/index-conversion",
                    d + " index " + std::to_string(i));
      bool threw = false;
      size_t abs = 0;
      T val{};
      try {
        abs = sa.absoluteFromRelative(i);
        val = sa.at(i);
      } catch (const BSplineException &) {
        threw = true;
      }
      if (i < size ? (threw || abs != A.start + i || !sameBits(val, grid[A.start + i]))
                   : !threw) {
        c.violation("C13", "large-grid/checked-access", d + " index " + std::to_string(i));
        c.violation("C09", "large-grid/checked-access-bounds", d + " index " + std::to_string(i));
      }
      c.count("index-probes");
    }
    c.count("large-grid:triples");
  }
  c.count("large-grid:" + std::to_string(n));
  Hasher h;
  h.u(n);
  h.u(c.caseId);
  c.nontrivial(h.h);
}

// A long-lived support is compared again and again with supports on grids
// that come and go: first a separate-but-equal instance (deep comparison,
// true), which is destroyed, then a logically different grid of the same size
// allocated right afterwards (very likely at the address just released).
// Equality must follow the points, not the history; union and intersection
// across the different grid must be refused.
template <typename T>
void longLivedSupportCase(Ctx &c, size_t n, const Win &A) {
  using bspline::exceptions::ErrorCode;
  static std::optional<Support<T>> keep;
  static std::vector<R> keepPts;
  static Win keepWin;
  Rng g = c.rng(77);
  if (!keep || keepPts.size() != n || c.caseId % 8 == 3) {
    keepPts.clear();
    R x = R((int64_t)g.range(-40, 40)) / 8;
    for (size_t i = 0; i < n; i++) {
      keepPts.push_back(x);
      x += R((int64_t)g.range(1, 16)) / 8;
    }
    keepWin = A;
    keep.reset();
    keep.emplace(mkGrid<T>(keepPts), A.start, A.end);
  }
  const Win w = keepWin;
  const void *released = nullptr;
  {
    const Grid<T> twin = mkGrid<T>(keepPts);
    const Support<T> tw(twin, w.start, w.end);
    released = twin.getData().get();
    bool ok = (*keep == tw) && (tw == *keep) && !(*keep != tw) && keep->hasSameGrid(tw) &&
              tw.hasSameGrid(*keep);
    try {
      ok = ok && keep->calcUnion(tw) == *keep && tw.calcIntersection(*keep) == tw;
    } catch (const std::exception &) {
      ok = false;
    }
    if (!ok)
      c.violation("C13", "equal-twin-not-equal/long-lived-support",
                  "grid " + gridStr(keepPts) + " window " + winStr(w));
  }  // the twin is gone
  std::vector<R> other = keepPts;
  const size_t k = (size_t)g.below(n);
  other[k] += (k + 1 < n ? (other[k + 1] - other[k]) : R(1)) / 2;
  const Grid<T> different = mkGrid<T>(other);
  const Support<T> df(different, w.start, w.end);
  if (different.getData().get() == released) c.count("long-lived-support:address-reused");
  const std::string ctx = "long-lived support on " + gridStr(keepPts) + " window " + winStr(w) +
                          " against the same window of " + gridStr(other);
  if (*keep == df || df == *keep || !(*keep != df) || keep->hasSameGrid(df) ||
      df.hasSameGrid(*keep) || keep->getGrid() == different || different == keep->getGrid())
    c.violation("C13", "equality-across-grids/long-lived-support", ctx);
  int refused = 0;
  auto must = [&](auto &&f) {
    try {
      f();
    } catch (const BSplineException &e) {
      if (e.getErrorCode() == ErrorCode::DIFFERING_GRIDS) refused++;
    } catch (const std::exception &) {
    }
  };
  must([&] { auto r = keep->calcUnion(df); (void)r; });
  must([&] { auto r = df.calcUnion(*keep); (void)r; });
  must([&] { auto r = keep->calcIntersection(df); (void)r; });
  must([&] { auto r = df.calcIntersection(*keep); (void)r; });
  if (refused != 4)
    c.violation("C13", "union-across-grids/long-lived-support",
                ctx + ": " + std::to_string(4 - refused) + " of 4 calls were not refused");
  c.count("long-lived-support:checked");
}

template <typename T>
void runCase(Ctx &c) {
  const size_t N = (size_t)c.param("maxn", 7);
  if (c.caseId >= (uint64_t)c.param("exhaustive", 1 << 30)) {
    largeCase<T>(c, c.caseId % 2 ? 300 : 70000);
    return;
  }
  // case k -> (n, A)
  uint64_t k = c.caseId;
  size_t n = 2;
  for (;; n++) {
    if (n > N) {
      c.count("beyond-scope");
      return;  // more cases requested than the scope holds
    }
    const uint64_t w = 1 + n * (n + 1) / 2;
    if (k < w) break;
    k -= w;
  }
  Access<T> a(c, n);
  const Win A = a.wins[(size_t)k];
  a.algebra(A);
  a.indices(A);
  a.referenceStability(A);
  longLivedSupportCase<T>(c, n, A);
  c.count("windows");
  c.count("gridsize:" + std::to_string(n));
  Hasher h;
  h.u(n);
  h.u(A.start * 1000 + A.end);
  c.nontrivial(h.h);
  if (n >= 4 && A.start == 1) c.sample(a.ctx(A) + ": all pairs and triples, " +
                                       std::to_string(a.probeIndices(A).size()) +
                                       " index values", 3);
}

}  // namespace

int main(int argc, char **argv) {
  return driverMain(argc, argv, "access", ST<VT>::name(), runCase<VT>);
}
