// C03 (single-shot sweep): spline arithmetic for order pairs beyond the pool
// machine's 0..4 - every pair (oa, ob) in 0..MAXA x 0..MAXA with
// max(oa, ob) >= 5 - and for large grids (up to ~130 points), against the
// exact model on every interval of the whole grid.
#include "lib.h"
#include "scalar.h"

#ifndef MAXA
#define MAXA 8
#endif

using namespace vf;
using bspline::Spline;
using bspline::exceptions::BSplineException;
using bspline::support::Grid;
using bspline::support::Support;

namespace {

template <typename T>
struct Sweep {
  Ctx &c;
  std::string ctx;
  template <size_t o>
  void judge(const char *op, const Spline<T, o> &res, const Den &ex,
             const AbsM &sc, bool family) {
    Verdict v = agreeSpline(res, ex, ST<T>::exact ? nullptr : &sc);
    if constexpr (!ST<T>::exact) c.maxval(std::string("ratio:") + op, v.ratio);
    c.count(std::string("checked:") + op);
    if (!v.ok) {
      c.violation("C03", std::string("sweep/") + op, ctx + " " + op + ": " + v.why);
      if constexpr (!ST<T>::exact)
        if (family) c.violation("C16", std::string("sweep/") + op, ctx + " " + v.why);
    }
  }
};

template <typename T, size_t oa, size_t ob>
void arithCase(Ctx &c, Rng &g) {
  const bool dyadic = !ST<T>::exact;
  // one case in eight lives on a large grid
  const bool large = c.caseId % 8 == 7;
  const std::vector<R> pts = large ? genGrid(g, dyadic, 65, dyadic ? 120 : 130)
                                   : genGrid(g, dyadic, PLACEMENT_MIN_POINTS, 12);
  const size_t n = pts.size();
  const Grid<T> grid = mkGrid<T>(pts), twin = mkGrid<T>(pts);
  const int pl = (int)((c.caseId / 8) % P_COUNT);
  const auto pr = genPlacement(g, n, pl);
  const Win wa = pr.first, wb = pr.second;
  Spline<T, oa> a = mkSpline<T, oa>(grid, wa.start, wa.end,
                                    genCoefM(g, dyadic, wa.nint(), oa));
  const Spline<T, ob> b = mkSpline<T, ob>(g.chance(1, 3) ? twin : grid, wb.start,
                                          wb.end, genCoefM(g, dyadic, wb.nint(), ob));
  Sweep<T> sw{c, ""};
  sw.ctx = "orders (" + std::to_string(oa) + "," + std::to_string(ob) + ") grid of " +
           std::to_string(n) + " points " + (n <= 12 ? gridStr(pts) : std::string("[...]")) +
           " a=" + (n <= 12 ? splineStr(a) : "window " + winStr(wa)) +
           " b=" + (n <= 12 ? splineStr(b) : "window " + winStr(wb));
  c.count("cases-run");
  c.count("orders:" + std::to_string(oa) + "," + std::to_string(ob));
  c.count(std::string("place:") + placementName(pl));
  c.count(large ? "grid:large" : "grid:small");
  const bool family = oa <= 6 && ob <= 6;
  const Den da = denote(a), db = denote(b);
  const AbsM aa = absOf(a), ab = absOf(b);
  try {
    constexpr size_t om = oa > ob ? oa : ob;
    sw.judge("add", a + b, model::dadd(da, db), absAdd(aa, ab), family);
    sw.judge("add-commuted", b + a, model::dadd(da, db), absAdd(aa, ab), family);
    sw.judge("sub", a - b, model::dsub(da, db), absAdd(aa, ab), family);
    if constexpr (oa + ob <= 2 * MAXA - 4)
      sw.judge("mul", a * b, model::dmul(da, db), absMul(aa, ab), family && oa + ob <= 6);
    const R cr = genScalar(g, dyadic);
    const T cs = mk<T>(cr);
    sw.judge("scalar-left", cs * a, model::dscale(da, cr), absScale(aa, cr), family);
    sw.judge("scalar-div", b / cs, model::dscale(db, R(1) / cr),
             absScale(ab, R(1) / cr), family);
    sw.judge("negate", -b, model::dscale(db, R(-1)), ab, family);
    if constexpr (ob < oa) {
      Spline<T, oa> t = a;
      t = b;  // cross-order assignment over an existing value
      sw.judge("cross-order-assign", t, db, ab, family);
      t = a;
      t += b;
      sw.judge("add-assign", t, model::dadd(da, db), absAdd(aa, ab), family);
      t -= b;
      t -= b;
      sw.judge("sub-assign", t, model::dsub(da, db), absAdd(absAdd(aa, ab), absAdd(ab, ab)), family);
    } else if constexpr (ob == oa) {
      Spline<T, oa> t = a;
      t += b;
      sw.judge("add-assign", t, model::dadd(da, db), absAdd(aa, ab), family);
      t *= cs;
      sw.judge("mul-assign", t, model::dscale(model::dadd(da, db), cr),
               absScale(absAdd(aa, ab), cr), family);
      // linear combination of three splines of this order
      const Win w3 = genWin(g, n);
      const Spline<T, oa> s3 = mkSpline<T, oa>(grid, w3.start, w3.end,
                                               genCoefM(g, dyadic, w3.nint(), oa));
      std::vector<Spline<T, oa>> ms{s3, a, b};
      const R c0 = genScalar(g, dyadic), c1 = genScalar(g, dyadic);
      std::vector<T> cf{mk<T>(c0), mk<T>(c1), cs};
      const Den d3 = denote(s3);
      sw.judge("linear-combination", bspline::linearCombination(cf, ms),
               model::dadd(model::dadd(model::dscale(d3, c0), model::dscale(da, c1)),
                           model::dscale(db, cr)),
               absAdd(absAdd(absScale(absOf(s3), c0), absScale(aa, c1)),
                      absScale(ab, cr)),
               family);
    }
    (void)om;
    {
      // forms over every order pair of the sweep (C06, C07): scalar product,
      // BilinearForm{X<1>, Dx<1>}, BilinearForm{Dx<2>, X<2>} with the operands
      // swapped, LinearForm{X<2>}, LinearForm{} against the exact integrals
      using namespace bspline::operators;
      using namespace bspline::integration;
      auto absInt = [](const Poly &S, const R &h) {
        R r(0), hp = h;
        for (size_t j = 0; j < S.size(); j++) {
          r += S[j] * 2 * hp / R(j + 1);
          hp *= h;
        }
        return r;
      };
      const size_t lo = std::max(wa.start, wb.start), hi = std::min(wa.end, wb.end);
      R sp(0), spS(0), xd(0), xdS(0), dx(0), dxS(0);
      const Den xa = model::dmulx(da, 1), ddb = model::dderiv(db, 1);
      const Den x2b = model::dmulx(db, 2), d2a = model::dderiv(da, 2);
      const AbsM xaA = absMulX(aa, 1, pts), ddbA = absDeriv(ab, 1);
      const AbsM x2bA = absMulX(ab, 2, pts), d2aA = absDeriv(aa, 2);
      if (!wa.empty() && !wb.empty())
        for (size_t k = lo; k + 1 < hi; k++) {
          const R h = (pts[k + 1] - pts[k]) / 2;
          sp += model::pintegral(model::pmul(da.pc[k], db.pc[k]), pts[k], pts[k + 1]);
          spS += absInt(model::pmul(aa[k], ab[k]), h);
          xd += model::pintegral(model::pmul(xa.pc[k], ddb.pc[k]), pts[k], pts[k + 1]);
          xdS += absInt(model::pmul(xaA[k], ddbA[k]), h);
          dx += model::pintegral(model::pmul(x2b.pc[k], d2a.pc[k]), pts[k], pts[k + 1]);
          dxS += absInt(model::pmul(x2bA[k], d2aA[k]), h);
        }
      auto judgeF = [&](const char *prop, const char *what, const T &val, const R &ex,
                        const R &S) {
        Verdict v = agreeScalar(val, ex, S);
        if constexpr (!ST<T>::exact) c.maxval(std::string("ratio:") + what, v.ratio);
        c.count(std::string("forms:sweep:") + what);
        if (!v.ok) {
          c.violation(prop, std::string("sweep/") + what, sw.ctx + " " + what + ": " + v.why);
          if constexpr (!ST<T>::exact)
            if (family && oa + ob <= 6)
              c.violation("C16", std::string("sweep/") + what, sw.ctx + " " + v.why);
        }
      };
      judgeF("C06", "scalar-product", ScalarProduct{}(a, b), sp, spS);
      judgeF("C06", "scalar-product-swapped", ScalarProduct{}(b, a), sp, spS);
      judgeF("C06", "bilinear-X-Dx", BilinearForm{X<1>{}, Dx<1>{}}(a, b), xd, xdS);
      judgeF("C06", "bilinear-X2-Dx2-swapped", BilinearForm{X<2>{}, Dx<2>{}}(b, a), dx, dxS);
      R lf(0), lfS(0), l2(0), l2S(0);
      const Den x2 = model::dmulx(da, 2);
      const AbsM x2A = absMulX(aa, 2, pts);
      for (size_t k = wa.start; k + 1 < wa.end; k++) {
        const R h = (pts[k + 1] - pts[k]) / 2;
        lf += model::pintegral(x2.pc[k], pts[k], pts[k + 1]);
        lfS += absInt(x2A[k], h);
      }
      for (size_t k = wb.start; k + 1 < wb.end; k++) {
        const R h = (pts[k + 1] - pts[k]) / 2;
        l2 += model::pintegral(db.pc[k], pts[k], pts[k + 1]);
        l2S += absInt(ab[k], h);
      }
      judgeF("C07", "linear-X2", LinearForm{X<2>{}}(a), lf, lfS);
      judgeF("C07", "linear-identity", LinearForm{}(b), l2, l2S);
      c.count(std::string("forms:sweep:place:") + placementName(pl));
      c.count("forms:sweep:orders:" + std::to_string(oa) + "," + std::to_string(ob));
    }
    {
      const std::string lie = predicateNearMisses(a, g);
      if (!lie.empty()) c.violation("C15", "sweep/near-miss", sw.ctx + ": " + lie);
      const size_t lo = std::max(wa.start, wb.start), hi = std::min(wa.end, wb.end);
      const bool share = !wa.empty() && !wb.empty() && hi > lo && hi - lo >= 2;
      if (a.checkOverlap(b) != share || b.checkOverlap(a) != share)
        c.violation("C15", std::string("sweep/checkOverlap/") + placementName(pl), sw.ctx);
      c.count("pred:near-misses");
    }
    if (!model::dzerop(da) && !model::dzerop(db)) {
      Hasher h;
      h.s(sw.ctx);
      for (size_t j = 0; j < a.getCoefficients().size() && j < 4; j++)
        for (const auto &x : midCoeffs(a, j)) h.r(x);
      c.nontrivial(h.h);
      if (c.caseId % 50 == 0) c.sample(sw.ctx, 3);
    }
  } catch (const BSplineException &e) {
    c.violation("C03", "sweep/unexpected-throw", sw.ctx + " threw " + e.what());
  } catch (const std::exception &e) {
    c.violation("C03", "sweep/foreign-exception", sw.ctx + " threw " + e.what());
  }
}

template <typename T>
void runCase(Ctx &c) {
  Rng g = c.rng();
  // enumerate the order pairs with max >= 5 (the rest belongs to the pool)
  static std::vector<std::pair<size_t, size_t>> pairs;
  if (pairs.empty())
    for (size_t x = 0; x <= MAXA; x++)
      for (size_t y = 0; y <= MAXA; y++)
        if (std::max(x, y) >= 5) pairs.push_back({x, y});
  const auto pr = pairs[c.caseId % pairs.size()];
  dispatchOrder<MAXA>(pr.first, [&](auto OA) {
    dispatchOrder<MAXA>(pr.second, [&](auto OB) {
      if constexpr (OA.value >= 5 || OB.value >= 5)
        arithCase<T, OA.value, OB.value>(c, g);
    });
  });
}

}  // namespace

int main(int argc, char **argv) {
  return driverMain(argc, argv, "arith", ST<VT>::name(), runCase<VT>);
}
