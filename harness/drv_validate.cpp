// C11: malformed input is rejected at the boundary with the library's
// exception; valid input is never refused. An independent predicate
// valid(args), written from the statement, decides what must happen.
#include <bspline/interpolation/interpolation.h>

#include <iterator>
#include <sstream>

#include "lib.h"
#include "scalar.h"

using namespace vf;
using bspline::Spline;
using bspline::exceptions::BSplineException;
using bspline::support::Grid;
using bspline::support::Support;

namespace {

enum Out { ACCEPTED = 0, REFUSED = 1, FOREIGN = 2 };
template <typename F>
Out attempt(F &&f, std::string *what = nullptr) {
  try {
    f();
    return ACCEPTED;
  } catch (const BSplineException &e) {
    if (what) *what = e.what();
    return REFUSED;
  } catch (const std::exception &e) {
    if (what) *what = std::string("foreign: ") + e.what();
    return FOREIGN;
  } catch (...) {
    if (what) *what = "foreign: unknown";
    return FOREIGN;
  }
}

// ---- alphabet of point values (index -> value); floating types get
// infinities and NaN, the exact type a few rationals
template <typename T>
std::vector<T> alphabet() {
  if constexpr (ST<T>::exact) {
    return {mk<T>(-1), mk<T>(0), mk<T>(1), mk<T>(2), mk<T>(5, 2), mk<T>(-7, 3),
            mk<T>(1000000)};
  } else {
    return {(T)-INFINITY, (T)-1, (T)0, (T)1, (T)2, (T)NAN, (T)INFINITY};
  }
}
template <typename T>
std::string valStr(const T &v) {
  if constexpr (ST<T>::exact)
    return model::rstr(toR<T>(v));
  else {
    if (std::isnan(v)) return "NaN";
    if (std::isinf(v)) return v < 0 ? "-inf" : "+inf";
    return model::rstr(toR<T>(v));
  }
}
template <typename T>
std::string seqStr(const std::vector<T> &v) {
  std::string s = "[";
  for (size_t i = 0; i < v.size(); i++) s += (i ? "," : "") + valStr(v[i]);
  return s + "]";
}
template <typename T>
bool strictlyIncreasing(const std::vector<T> &v) {
  for (size_t i = 0; i + 1 < v.size(); i++)
    if (!(v[i] < v[i + 1])) return false;
  return true;
}
template <typename T>
bool nonDecreasing(const std::vector<T> &v) {
  for (size_t i = 0; i + 1 < v.size(); i++)
    if (!(v[i] <= v[i + 1])) return false;
  return true;
}

template <typename T>
struct V {
  Ctx &c;
  void judge(const char *what, bool valid, Out o, const std::string &desc,
             const std::string &msg) {
    c.count(std::string(what) + (valid ? ":valid" : ":invalid"));
    if (o == FOREIGN)
      c.violation("C11", std::string(what) + "/foreign-exception",
                  desc + " -> " + msg);
    else if (valid && o == REFUSED)
      c.violation("C11", std::string(what) + "/valid-input-refused",
                  desc + " -> " + msg);
    else if (!valid && o == ACCEPTED)
      c.violation("C11", std::string(what) + "/invalid-input-accepted", desc);
    Hasher h;
    h.s(what);
    h.s(desc);
    c.nontrivial(h.h);
  }

  // ------------------------------------------------------------------ Grid
  void gridSeq(const std::vector<T> &v) {
    const bool valid = v.size() >= 2 && strictlyIncreasing(v);
    const std::string d = "Grid" + seqStr(v);
    std::string msg;
    judge("grid-vector", valid,
          attempt([&] { Grid<T> g(v); (void)g; }, &msg), d, msg);
    judge("grid-iterators", valid,
          attempt([&] { Grid<T> g(v.begin(), v.end()); (void)g; }, &msg), d, msg);
    judge("grid-shared-ptr", valid, attempt([&] {
            Grid<T> g(std::make_shared<const std::vector<T>>(v));
            (void)g;
          }, &msg), d, msg);
    if (v.size() <= 4) {
      judge("grid-initializer-list", valid, attempt([&] {
              switch (v.size()) {
                case 0: { Grid<T> g(std::initializer_list<T>{}); (void)g; break; }
                case 1: { Grid<T> g({v[0]}); (void)g; break; }
                case 2: { Grid<T> g({v[0], v[1]}); (void)g; break; }
                case 3: { Grid<T> g({v[0], v[1], v[2]}); (void)g; break; }
                default: { Grid<T> g({v[0], v[1], v[2], v[3]}); (void)g; }
              }
            }, &msg), d, msg);
    }
    // a knot vector: non-decreasing with at least two distinct values
    bool distinct2 = false;
    for (size_t i = 0; i + 1 < v.size(); i++)
      if (v[i] < v[i + 1]) distinct2 = true;
    const bool kvalid = nonDecreasing(v) && distinct2;
    judge("generator-knots", kvalid, attempt([&] {
            bspline::BSplineGenerator<T> gen(v);
            (void)gen;
          }, &msg), "knots" + seqStr(v), msg);
  }

  void gridExhaustive(uint64_t block, size_t perCase) {
    const std::vector<T> al = alphabet<T>();
    const size_t A = al.size();
    for (uint64_t idx = block * perCase; idx < (block + 1) * perCase; idx++) {
      // idx enumerates all sequences of length 0,1,2,... in order
      uint64_t r = idx, pw = 1;
      size_t len = 0;
      while (r >= pw) {
        r -= pw;
        pw *= A;
        len++;
      }
      std::vector<T> v(len);
      for (size_t i = 0; i < len; i++) {
        v[i] = al[r % A];
        r /= A;
      }
      gridSeq(v);
      c.count("grid-exhaustive-length:" + std::to_string(len));
    }
  }

  void gridLong(Rng &g) {
    // a long valid sequence with one defect at a chosen position
    // mostly 3..40 points; one in four much longer, with the defect at or
    // next to a power-of-two position
    const bool lng = g.chance(1, 4);
    const size_t n = lng ? (size_t)g.range(60, 1100) : (size_t)g.range(3, 40);
    std::vector<T> v;
    for (size_t i = 0; i < n; i++) v.push_back(mk<T>((long)i * 3 - 20, 4));
    size_t pos = g.below(n);
    if (lng) {
      static const size_t marks[] = {63, 64, 65, 127, 128, 129, 255, 256, 257,
                                     511, 512, 513, 767, 768, 1023, 1024, 1025};
      const size_t m = marks[g.below(17)];
      if (m < n) pos = m;
      c.count("grid-long:over-60-points");
    }
    const int defect = (int)g.below(ST<T>::exact ? 3 : 5);
    const char *dn = "";
    switch (defect) {
      case 0:
        dn = "none";
        break;
      case 1:
        dn = "swap";
        if (pos + 1 < n) std::swap(v[pos], v[pos + 1]);
        else std::swap(v[pos], v[pos - 1]);
        break;
      case 2:
        dn = "duplicate";
        if (pos + 1 < n) v[pos + 1] = v[pos];
        else v[pos - 1] = v[pos];
        break;
      case 3:
        if constexpr (!ST<T>::exact) {
          dn = "nan";
          v[pos] = (T)NAN;
        }
        break;
      default:
        if constexpr (!ST<T>::exact) {
          dn = "inf-inside";
          v[pos] = pos + 1 == n ? (T)-INFINITY : (T)INFINITY;
        }
    }
    c.count(std::string("grid-long-defect:") + dn + (pos == 0 ? ":first" : (pos + 1 == n ? ":last" : ":inner")));
    gridSeq(v);
  }

  // --------------------------------------------------------------- Support
  void supportPairs(size_t n) {
    const Grid<T> grid = mkGrid<T>(Access(n));
    std::vector<size_t> idx;
    for (size_t i = 0; i <= n + 2; i++) idx.push_back(i);
    const size_t top = ~size_t(0);
    for (size_t k = 0; k < 3; k++) idx.push_back(top - k);
    idx.push_back(top / 2 + 1);
    for (size_t s : idx)
      for (size_t e : idx) {
        const bool valid = (s == 0 && e == 0) || (s < e && e <= n);
        if (s == e && s > 0) {
          c.count("support:k-k-not-judged");
          std::string msg;
          if (attempt([&] { Support<T> x(grid, s, e); (void)x; }, &msg) == FOREIGN)
            c.violation("C11", "support/foreign-exception", msg);
          continue;
        }
        std::string msg;
        judge("support", valid,
              attempt([&] { Support<T> x(grid, s, e); (void)x; }, &msg),
              "Support(grid of " + std::to_string(n) + ", " + std::to_string(s) +
                  ", " + std::to_string(e) + ")",
              msg);
      }
    // Spline: every coefficient count against every window
    for (size_t s = 0; s <= n; s++)
      for (size_t e = s; e <= n; e++) {
        if (s == e && s > 0) continue;
        const Support<T> sup(grid, s, e);
        const size_t nint = e - s >= 2 ? e - s - 1 : 0;
        for (size_t cnt = 0; cnt <= n + 1; cnt++) {
          std::string msg;
          auto mkc = [&](auto O) {
            constexpr size_t o = decltype(O)::value;
            std::vector<std::array<T, o + 1>> cs(
                cnt, bspline::internal::make_array<T, o + 1>(mk<T>(1)));
            return attempt([&] { Spline<T, o> x(sup, std::move(cs)); (void)x; },
                           &msg);
          };
          const Out o = (cnt + s) % 2
                            ? mkc(std::integral_constant<size_t, 0>{})
                            : mkc(std::integral_constant<size_t, 3>{});
          judge("spline-coefficient-count", cnt == nint, o,
                "Spline(window (" + std::to_string(s) + "," + std::to_string(e) +
                    ") of " + std::to_string(n) + " points, " +
                    std::to_string(cnt) + " coefficient arrays)",
                msg);
        }
      }
  }
  static std::vector<R> Access(size_t n) {
    std::vector<R> p;
    for (size_t i = 0; i < n; i++) p.push_back(R((long)i) / 2 - 1);
    return p;
  }

  // ------------------------------------------------------------- Generator
  template <size_t p>
  void genOrder(const std::vector<T> &knots, const std::string &d) {
    std::string msg;
    const bool valid = knots.size() >= p + 1;
    judge("generator-order", valid, attempt([&] {
            bspline::BSplineGenerator<T> gen(knots);
            auto r = gen.template generateBSplines<p>();
            if (r.size() != knots.size() - p - 1) throw std::logic_error("count");
          }, &msg), d + " order " + std::to_string(p), msg);
    judge("generator-order-free-function", valid, attempt([&] {
            auto r = bspline::generateBSplines<p, T>(knots);
            (void)r;
          }, &msg), d + " order " + std::to_string(p) + " (free function)", msg);
  }
  void generator(Rng &g) {
    // valid knot vectors of every length around the bound order+1
    const size_t len = (size_t)g.range(2, 9);
    std::vector<T> knots;
    long x = g.range(-4, 4);
    for (size_t i = 0; i < len; i++) {
      knots.push_back(mk<T>(x, 2));
      if (i + 2 == len || g.chance(2, 3)) x += g.range(1, 3);
    }
    // ensure two distinct values
    if (!(knots.front() < knots.back())) knots.back() = mk<T>(x + 1, 2);
    const std::string d = "knots" + seqStr(knots);
    genOrder<0>(knots, d);
    genOrder<1>(knots, d);
    genOrder<2>(knots, d);
    genOrder<3>(knots, d);
    genOrder<4>(knots, d);
    genOrder<5>(knots, d);
    genOrder<8>(knots, d);
    c.count("generator:length:" + std::to_string(len));
    // supplied grid: equal / differing
    std::vector<T> uniq;
    for (const auto &k : knots)
      if (uniq.empty() || uniq.back() < k) uniq.push_back(k);
    std::string msg;
    judge("generator-supplied-grid", true, attempt([&] {
            bspline::BSplineGenerator<T> gen(knots, Grid<T>(uniq));
            (void)gen;
          }, &msg), d + " with its own grid", msg);
    std::vector<T> other = uniq;
    const int how = (int)g.below(4);
    if (how == 0)
      other.push_back(mk<T>(x + 10, 2));
    else if (how == 1 && other.size() > 2)
      other.pop_back();
    else if (how == 2)
      other.back() = mk<T>(x + 7, 2);
    else
      other.front() = mk<T>(-100, 2);
    judge("generator-supplied-grid", false, attempt([&] {
            bspline::BSplineGenerator<T> gen(knots, Grid<T>(other));
            (void)gen;
          }, &msg), d + " with grid " + seqStr(other), msg);
  }

  // ----------------------------------------------------- linearCombination
  // iterator ranges whose value type is not T, and single-pass input
  // iterators: validity is decided on the points the grid actually stores
  void gridForeignIterators(Rng &g) {
    if constexpr (!ST<T>::exact) {
      using Wide = std::conditional_t<std::is_same_v<T, long double>, long double,
                                      std::conditional_t<std::is_same_v<T, double>,
                                                         long double, double>>;
      // strictly increasing in the wider type; neighbours may collapse in T
      std::vector<Wide> w;
      Wide x = (Wide)g.range(-4, 4);
      const size_t n = (size_t)g.range(2, 6);
      const size_t tight = g.below(n);  // position of a too-small step (or none)
      const bool collapse = g.chance(1, 2) && !std::is_same_v<T, Wide>;
      for (size_t i = 0; i < n; i++) {
        w.push_back(x);
        if (collapse && i == tight)
          x += (Wide)std::numeric_limits<T>::epsilon() / 1024;  // lost in T
        else
          x += (Wide)1 / 4;
      }
      std::vector<T> stored(w.begin(), w.end());
      const bool valid = stored.size() >= 2 && strictlyIncreasing(stored);
      std::string msg;
      std::optional<Grid<T>> made;
      judge("grid-iterators-other-value-type", valid,
            attempt([&] { made.emplace(w.begin(), w.end()); }, &msg),
            "Grid<" + std::string(ST<T>::name()) + "> from a range of a wider type, stored as " +
                seqStr(stored), msg);
      if (made) {
        // walk the live grid through its shared data (the accessors of an
        // invalid grid throw when the self-checks are compiled in)
        try {
          const std::vector<T> live = *made->getData();
          if (!strictlyIncreasing(live) || live.size() < 2)
            c.violation("C10", "grid-invariant/foreign-iterator-range",
                        "live grid " + seqStr(live));
        } catch (const BSplineException &e) {
          c.violation("C10", "grid-invariant/foreign-iterator-range",
                      std::string("accessor of the live grid threw ") + e.what() +
                          "; points as converted: " + seqStr(stored));
        }
      }
      c.count(collapse ? "grid-foreign:collapsing" : "grid-foreign:distinct");
    }
    // single-pass input iterators (std::istream_iterator)
    {
      const size_t n = (size_t)g.range(0, 5);
      std::ostringstream os;
      std::vector<T> expect;
      for (size_t i = 0; i < n; i++) {
        os << (long)i * 2 - 3 << ' ';
        expect.push_back(mk<T>((long)i * 2 - 3));
      }
      std::istringstream is(os.str());
      std::string msg;
      std::optional<Grid<T>> made;
      if constexpr (!ST<T>::exact) {
        judge("grid-input-iterators", n >= 2, attempt([&] {
                made.emplace(std::istream_iterator<T>(is), std::istream_iterator<T>());
              }, &msg), "Grid from std::istream_iterator over " + std::to_string(n) +
                            " increasing numbers", msg);
        if (made && (made->size() != n ||
                     !std::equal(made->begin(), made->end(), expect.begin())))
          c.violation("C11", "grid-input-iterators/wrong-points",
                      "grid of " + std::to_string(made->size()) + " points from " +
                          std::to_string(n) + " numbers");
      }
    }
  }

  // collections in which every member is interval-free are valid input
  void lincombAllEmpty(Rng &g) {
    const Grid<T> grid = mkGrid<T>(Access(5));
    for (size_t k = 1; k <= 3; k++) {
      std::vector<Spline<T, 2>> ss;
      std::vector<T> cs;
      std::string kinds;
      for (size_t i = 0; i < k; i++) {
        switch (g.below(3)) {
          case 0:
            ss.emplace_back(grid);
            kinds += "empty ";
            break;
          case 1: {
            Spline<T, 2> tmp(Support<T>(grid, 0, 3), {{mk<T>(1), mk<T>(0), mk<T>(2)},
                                                      {mk<T>(0), mk<T>(1), mk<T>(0)}});
            Spline<T, 2> taken(std::move(tmp));
            ss.push_back(std::move(tmp));  // moved-from
            kinds += "moved-from ";
            break;
          }
          default: {
            // product of two splines without a common interval
            Spline<T, 1> l(Support<T>(grid, 0, 2), {{mk<T>(1), mk<T>(1)}});
            Spline<T, 1> r(Support<T>(grid, 3, 5), {{mk<T>(2), mk<T>(1)}});
            ss.push_back(l * r);
            kinds += "disjoint-product ";
          }
        }
        cs.push_back(mk<T>((long)i + 2));
      }
      std::string msg;
      bool zero = false;
      judge("linear-combination-all-interval-free", true, attempt([&] {
              auto r = bspline::linearCombination(cs, ss);
              zero = r.isZero() && !r.getSupport().containsIntervals();
            }, &msg), "linearCombination over [" + kinds + "]", msg);
      if (msg.empty() && !zero)
        c.violation("C11", "linear-combination-all-interval-free/not-zero", kinds);
    }
  }

  void lincomb() {
    {
      std::string msg;
      judge("grid-null-shared-ptr", false, attempt([&] {
              Grid<T> g(std::shared_ptr<const std::vector<T>>{});
              (void)g;
            }, &msg), "Grid(null shared_ptr)", msg);
    }
    const Grid<T> grid = mkGrid<T>(Access(4));
    const Spline<T, 1> s(Support<T>(grid, 0, 3),
                         {{mk<T>(1), mk<T>(2)}, {mk<T>(0), mk<T>(-1)}});
    for (size_t nc = 0; nc <= 4; nc++)
      for (size_t ns = 0; ns <= 4; ns++) {
        std::vector<T> cs(nc, mk<T>(2));
        std::vector<Spline<T, 1>> ss(ns, s);
        std::string msg;
        const bool valid = nc == ns && nc >= 1;
        judge("linear-combination", valid, attempt([&] {
                auto r = bspline::linearCombination(cs, ss);
                (void)r;
              }, &msg), "linearCombination(" + std::to_string(nc) +
                            " coefficients, " + std::to_string(ns) + " splines)",
              msg);
        if (nc == ns && nc >= 1) {
          // reversed iterator pairs: a negative count is not "at least one"
          judge("linear-combination-reversed-range", false, attempt([&] {
                  auto r = bspline::linearCombination(cs.end(), cs.begin(),
                                                      ss.end(), ss.begin());
                  (void)r;
                }, &msg), "linearCombination(reversed ranges of " +
                              std::to_string(nc) + ")", msg);
        }
        judge("linear-combination-iterators", valid, attempt([&] {
                auto r = bspline::linearCombination(cs.begin(), cs.end(),
                                                    ss.begin(), ss.end());
                (void)r;
              }, &msg), "linearCombination(iterators; " + std::to_string(nc) +
                            ", " + std::to_string(ns) + ")",
              msg);
      }
  }

  // --------------------------------------------------------- interpolation
  // a solver that accepts everything: only acceptance/refusal is judged here
  class NullSolver final : public bspline::interpolation::internal::ISolver<T> {
    std::vector<T> m, b_, x_;
    size_t n;

   public:
    NullSolver(size_t problemsize)
        : m(problemsize * problemsize, mk<T>(0)), b_(problemsize, mk<T>(0)),
          x_(problemsize, mk<T>(0)), n(problemsize) {}
    T &M(size_t i, size_t j) override { return m.at(i * n + j); }
    T &b(size_t i) override { return b_.at(i); }
    void solve() override {}
    T &x(size_t i) override { return x_.at(i); }
  };

  template <size_t order>
  void interpOrder(Rng &g) {
    using namespace bspline::interpolation;
    const Grid<T> grid = mkGrid<T>(Access(6));
    for (size_t nx = 0; nx <= 4; nx++)
      for (size_t ny = 0; ny <= 4; ny++) {
        const size_t s = nx == 0 ? 0 : 1;
        const Support<T> x(grid, s, s + nx);
        std::vector<T> y(ny, mk<T>(1));
        std::string msg;
        judge("interpolate-sizes", nx == ny && nx >= 2, attempt([&] {
                auto r = interpolate<T, order, NullSolver>(x, y);
                (void)r;
              }, &msg), "interpolate<order " + std::to_string(order) + ">(" +
                            std::to_string(nx) + " abscissae, " +
                            std::to_string(ny) + " ordinates)",
              msg);
      }
    if constexpr (order >= 2) {
      // boundary derivative orders 0..order+1 at every array position and node
      const Support<T> x(grid, 1, 5);
      const std::vector<T> y(4, mk<T>(1));
      std::vector<size_t> derivs;
      for (size_t d = 0; d <= order + 1; d++) derivs.push_back(d);
      for (size_t big : {~size_t(0), ~size_t(0) / 2 + 1, (size_t)1 << 32,
                         ((size_t)1 << 32) + 1, (size_t)256 + 1, (size_t)65536 + 1})
        derivs.push_back(big);
      for (size_t pos = 0; pos + 1 < order; pos++)
        for (size_t d : derivs)
          for (int node = 0; node < 2; node++) {
            std::array<Boundary<T>, order - 1> bs;
            // the other entries: distinct valid conditions
            for (size_t i = 0; i + 1 < order; i++)
              bs[i] = Boundary<T>{i % 2 ? Node::LAST : Node::FIRST, i / 2 + 1,
                                  mk<T>(0)};
            bs[pos] = Boundary<T>{node ? Node::LAST : Node::FIRST, d,
                                  mk<T>((long)g.range(-2, 2))};
            std::string msg;
            judge("interpolate-boundary", d >= 1 && d <= order, attempt([&] {
                    auto r = interpolate<T, order, NullSolver>(x, y, bs);
                    (void)r;
                  }, &msg), "interpolate<order " + std::to_string(order) +
                                "> boundary[" + std::to_string(pos) + "] = {" +
                                (node ? "LAST" : "FIRST") + ", derivative " +
                                std::to_string(d) + "}",
                  msg);
            c.count(std::string("interpolate-boundary:node:") + (node ? "LAST" : "FIRST"));
          }
    }
  }
};

template <typename T>
void runCase(Ctx &c) {
  Rng g = c.rng();
  V<T> v{c};
  const uint64_t k = c.caseId;
  const uint64_t exBlocks = (uint64_t)c.param("gridblocks", 300);
  const size_t perCase = (size_t)c.param("gridpercase", 64);
  if (k < exBlocks) {
    v.gridExhaustive(k, perCase);
    return;
  }
  switch ((k - exBlocks) % 8) {
    case 0:
    case 1:
      v.gridLong(g);
      break;
    case 2:
      v.supportPairs(2 + (size_t)((k - exBlocks) / 8 % 6));
      break;
    case 3:
    case 4:
      v.generator(g);
      break;
    case 5:
      v.lincomb();
      v.lincombAllEmpty(g);
      v.gridForeignIterators(g);
      break;
    case 6:
      v.template interpOrder<1>(g);
      v.template interpOrder<2>(g);
      break;
    default:
      v.template interpOrder<3>(g);
      v.template interpOrder<4>(g);
  }
}

}  // namespace

int main(int argc, char **argv) {
  return driverMain(argc, argv, "validate", ST<VT>::name(), runCase<VT>);
}
