"""Generator of operator-expression programs (C05, C06, C07).

From ONE AST per expression it writes (a) the C++ expression text, built from
temporaries only and parenthesised minimally according to C++ precedence, and
(b) the ModelExpr literal (harness/mx.h) the oracle interprets.
"""
import hashlib
import os
import random
from fractions import Fraction

MAXIN = 3      # operand orders 0..MAXIN
MAXOUT = 8     # bound on the output order of an expression
FACTOR_ORDER = {0: 0, 1: 1, 2: 2}
NSC = 4        # run-time scalars of type T available as env.sc[i]

INT_KINDS = ["int", "long", "unsigned", "size_t"]
FLT_KINDS = ["float", "double", "long double"]


class S:
    """scalar: kind 'T' (run-time value env.sc[idx]) or a literal"""

    def __init__(self, kind, idx=0, val=Fraction(1)):
        self.kind, self.idx, self.val = kind, idx, Fraction(val)

    def text(self):
        if self.kind == "T":
            return "env.sc[%d]" % self.idx
        v = self.val
        if self.kind in ("int", "long"):
            s = "%d" % int(v) + ("L" if self.kind == "long" else "")
            return "(%s)" % s if v < 0 else s
        if self.kind == "unsigned":
            return "%du" % int(v)
        if self.kind == "size_t":
            return "size_t{%d}" % int(v)
        dec = repr(float(v))
        assert Fraction(float(v)) == v
        suf = {"float": "f", "double": "", "long double": "L"}[self.kind]
        s = dec + suf
        return "(%s)" % s if v < 0 else s

    def model(self, kind, child):
        if self.kind == "T":
            return "mx::mkt(mx::%s, %d, %s)" % (kind, self.idx, child)
        return "mx::mkc(mx::%s, %d, %d, %s)" % (
            kind, self.val.numerator, self.val.denominator, child)

    def tag(self):
        return self.kind.replace(" ", "-")


class N:
    def __init__(self, kind, n=0, s=None, a=None, b=None):
        self.kind, self.n, self.s, self.a, self.b = kind, n, s, a, b

    # ---- order bookkeeping (mirrors the library's outputOrder)
    def out(self, o):
        k = self.kind
        if k == "I":
            return o
        if k == "X":
            return o + self.n
        if k == "D":
            return max(self.n, o) - self.n
        if k == "V":
            return o + FACTOR_ORDER[self.n]
        if k == "SM":
            return o
        if k in ("cE", "Ec", "E/c", "neg"):
            return self.a.out(o)
        if k in ("E+c", "c+E", "E-c", "c-E"):
            return max(self.a.out(o), o)
        if k in ("sum", "diff"):
            return max(self.a.out(o), self.b.out(o))
        if k == "prod":
            return self.a.out(self.b.out(o))
        raise ValueError(k)

    def maxout(self):
        return max(self.out(o) for o in range(MAXIN + 1))

    def inner_max(self):
        """largest intermediate order anywhere inside (compile-cost bound)"""
        m = self.maxout()
        for c in (self.a, self.b):
            if c is not None:
                m = max(m, c.inner_max())
        if self.kind == "prod":
            m = max(m, max(self.a.out(self.b.out(o)) for o in range(MAXIN + 1)))
        return m

    # ---- C++ text
    PREC = {"sum": 1, "diff": 1, "E+c": 1, "c+E": 1, "E-c": 1, "c-E": 1,
            "prod": 2, "cE": 2, "Ec": 2, "E/c": 2, "neg": 3}

    def prec(self):
        return self.PREC.get(self.kind, 4)

    def text(self, parent=0, right=False):
        k = self.kind
        if k == "I":
            return "IdentityOperator{}"
        if k == "X":
            return "X<%d>{}" % self.n
        if k == "D":
            return "Dx<%d>{}" % self.n
        if k == "V":
            return "SplineOperator{env.f%d}" % self.n
        if k == "SM":
            return "ScalarMultiplication{%s}" % self.s.text()
        p = self.prec()
        if k == "neg":
            s = "-" + self.a.text(p, False)
            if self.a.kind == "neg":
                s = "-(" + self.a.text(0, False) + ")"
        elif k in ("sum", "diff", "prod"):
            op = {"sum": "+", "diff": "-", "prod": "*"}[k]
            s = "%s %s %s" % (self.a.text(p, False), op, self.b.text(p, True))
        elif k in ("cE", "c+E", "c-E"):
            op = {"cE": "*", "c+E": "+", "c-E": "-"}[k]
            s = "%s %s %s" % (self.s.text(), op, self.a.text(p, True))
        else:
            op = {"Ec": "*", "E/c": "/", "E+c": "+", "E-c": "-"}[k]
            s = "%s %s %s" % (self.a.text(p, False), op, self.s.text())
        if p < parent or (p == parent and right):
            s = "(" + s + ")"
        return s

    # ---- ModelExpr literal
    def model(self):
        k = self.kind
        if k == "I":
            return "mx::I()"
        if k == "X":
            return "mx::X(%d)" % self.n
        if k == "D":
            return "mx::D(%d)" % self.n
        if k == "V":
            return "mx::V(%d)" % self.n
        if k == "SM":
            return self.s.model("K_SCALE", "mx::I()")
        if k == "neg":
            return "mx::neg(%s)" % self.a.model()
        if k in ("sum", "diff", "prod"):
            return "mx::%s(%s, %s)" % (k, self.a.model(), self.b.model())
        mk = {"cE": "K_SCALE", "Ec": "K_SCALE", "E/c": "K_DIVC",
              "E+c": "K_ADDC", "c+E": "K_ADDC", "E-c": "K_SUBC",
              "c-E": "K_CSUB"}[k]
        return self.s.model(mk, self.a.model())

    def tags(self, acc=None):
        acc = set() if acc is None else acc
        if self.s is not None:
            acc.add("%s:%s" % (self.kind, self.s.tag()))
        elif self.kind in ("V", "neg", "sum", "diff", "prod"):
            acc.add(self.kind)
        for c in (self.a, self.b):
            if c is not None:
                c.tags(acc)
        return acc


# ------------------------------------------------------------ constructors
def I(): return N("I")
def X(n): return N("X", n)
def D(n): return N("D", n)
def V(n): return N("V", n)
def neg(a): return N("neg", a=a)
def add(a, b): return N("sum", a=a, b=b)
def sub(a, b): return N("diff", a=a, b=b)
def mul(a, b): return N("prod", a=a, b=b)
def sc(kind, a, s): return N(kind, s=s, a=a)
def SM(s): return N("SM", s=s)
def T(i): return S("T", idx=i)
def L(kind, v): return S(kind, val=Fraction(v))


def catalogue(exact):
    """Committed catalogue: every overload at least once, both example
    Hamiltonians, the commutator, mixed output sizes, spline factors."""
    flt = (lambda k, v: L("int", 2)) if exact else L
    c = [
        I(), X(1), X(4), D(1), D(2), D(3), V(0), V(1), V(2),
        sc("cE", X(1), T(0)), sc("Ec", D(1), T(1)), sc("E/c", X(2), T(2)),
        sc("E+c", D(1), T(3)), sc("c+E", X(1), T(0)), sc("E-c", X(1), T(1)),
        sc("c-E", D(1), T(2)), neg(X(1)),
        sc("cE", X(1), L("int", 3)), sc("Ec", X(1), L("int", -2)),
        sc("E/c", X(1), L("int", 2)), sc("E/c", V(1), L("size_t", 4)),
        sc("E+c", X(1), L("int", 5)), sc("c+E", D(1), L("long", -3)),
        sc("E-c", D(1), L("unsigned", 3)), sc("E-c", X(2), L("size_t", 2)),
        sc("c-E", X(1), L("unsigned", 7)), sc("c-E", V(0), L("int", 1)),
        sc("E/c", D(1), flt("double", Fraction(1, 4))),
        sc("cE", X(1), flt("float", Fraction(-3, 2))),
        sc("E+c", X(1), flt("long double", Fraction(5, 8))),
        add(X(2), D(1)), sub(D(1), X(2)), add(D(2), X(1)), sub(I(), X(3)),
        mul(D(1), X(1)), mul(X(1), D(1)),
        sub(mul(D(1), X(1)), mul(X(1), D(1))),          # commutator == identity
        add(sc("cE", D(2), T(0)), sc("cE", X(2), T(1))),  # harmonic oscillator
        add(sc("cE", D(2), T(0)), V(2)),                  # spline potential
        add(add(sc("cE", D(2), T(0)), sc("cE", mul(X(0), I()), T(1))),
            sc("cE", D(1), L("int", -1))),
        mul(add(X(1), D(1)), sub(X(1), D(1))),
        mul(mul(V(1), D(1)), V(0)),
        add(sc("E/c", neg(mul(X(1), V(1))), L("int", 2)),
            sc("cE", I(), L("int", 3))),
        mul(sc("E-c", X(1), T(3)), sc("c-E", D(1), T(0))),
        sc("cE", sc("Ec", sc("E/c", X(1), T(1)), L("int", 6)), L("long", -1)),
        neg(neg(D(1))), mul(D(2), mul(X(2), V(0))), mul(V(2), V(1)),
        sub(sc("c+E", mul(D(1), V(2)), T(2)), X(3)),
        mul(D(3), X(4)), mul(X(3), D(4)),
        # the public operator classes constructed directly
        SM(T(1)), SM(L("int", -4)), mul(SM(L("unsigned", 3)), X(2)),
        sub(D(1), SM(T(2))),
        # division by scalars of a narrower floating type whose reciprocal is
        # inexact in that type
        sc("E/c", X(1), flt("float", 3)), sc("E/c", V(1), flt("float", Fraction(5, 8))),
        sc("E/c", mul(D(1), X(2)), flt("float", -7)),
        sc("E/c", D(1), flt("double", 3)),
        # high powers and derivatives inside expressions
        X(5), X(6), X(7), D(5), D(6), D(7),
        sub(mul(D(1), X(5)), mul(X(5), D(1))),        # [d/dx, x^5] = 5 x^4
        mul(D(5), X(5)), add(sc("cE", X(6), T(0)), mul(X(3), X(3))),
        sc("E-c", mul(D(6), X(7)), L("int", 2)),
    ]
    return [e for e in c if e.inner_max() <= MAXOUT + 3]


def rand_scalar(rng, exact, for_div=False, unsigned_ok=True):
    r = rng.random()
    if r < 0.4:
        return T(rng.randrange(NSC))
    kinds = list(INT_KINDS) + ([] if exact else list(FLT_KINDS))
    k = rng.choice(kinds)
    if k in ("unsigned", "size_t"):
        return L(k, rng.choice([1, 2, 3, 5, 8]))
    if k in ("int", "long"):
        v = rng.choice([-7, -3, -2, -1, 1, 2, 3, 4, 6])
        return L(k, v)
    v = Fraction(rng.choice([-11, -5, -3, -1, 1, 3, 5, 9, 13]),
                 rng.choice([1, 2, 4, 8]))
    return L(k, v)


def rand_expr(rng, depth, exact):
    if depth <= 0 or rng.random() < 0.18:
        r = rng.random()
        if r < 0.12:
            return I()
        if r < 0.42:
            return X(rng.choice([0, 1, 1, 2, 2, 3, 4, 5, 6, 7]))
        if r < 0.72:
            return D(rng.choice([0, 1, 1, 2, 2, 3, 4, 5, 6, 7]))
        return V(rng.choice([0, 1, 2]))
    r = rng.random()
    if r < 0.34:
        k = rng.choice(["cE", "Ec", "E/c", "E+c", "c+E", "E-c", "c-E"])
        return sc(k, rand_expr(rng, depth - 1, exact),
                  rand_scalar(rng, exact, for_div=(k == "E/c")))
    if r < 0.42:
        return neg(rand_expr(rng, depth - 1, exact))
    k = rng.choice(["sum", "diff", "prod", "prod"])
    return N(k, a=rand_expr(rng, depth - 1, exact),
             b=rand_expr(rng, depth - 1, exact))


def random_set(seed, count, exact, maxdepth=4):
    rng = random.Random(seed * 7919 + (1 if exact else 2))
    out, seen = [], set()
    tries = 0
    while len(out) < count and tries < 100000:
        tries += 1
        e = rand_expr(rng, rng.randint(1, maxdepth), exact)
        if e.kind in ("I", "X", "D", "V", "SM"):
            continue
        if e.inner_max() > MAXOUT:
            continue
        t = e.text()
        if t in seen or len(t) > 160:
            continue
        seen.add(t)
        out.append(e)
    return out


def cstr(s):
    return '"' + s.replace("\\", "\\\\").replace('"', '\\"') + '"'


def emit_tu(exprs, path_dir, label):
    """Writes one translation unit holding `exprs`; returns its path."""
    lines = ['// generated by vf/exprgen.py -- do not edit',
             '#include "expr_main.h"', "",
             "namespace gen {",
             "using namespace bspline::operators;",
             "using ex::Env;", ""]
    for i, e in enumerate(exprs):
        lines += [
            "struct E%d {" % i,
            "  static constexpr const char *text = %s;" % cstr(e.text()),
            "  static constexpr const char *tags = %s;" % cstr(
                ",".join(sorted(e.tags()))),
            "  template <typename T>",
            "  static auto make(const Env<T> &env) {",
            "    (void)env;",
            "    return %s;" % e.text(),
            "  }",
            "  static mx::P model() { return %s; }" % e.model(),
            "};", ""]
    lines.append("using All = std::tuple<%s>;" % ", ".join(
        "E%d" % i for i in range(len(exprs))))
    n = len(exprs)
    pairs = ["std::pair<E%d, E%d>" % (i, (i + 1) % n) for i in range(n)]
    lines.append("using Pairs = std::tuple<%s>;" % ", ".join(pairs))
    lines += ["}  // namespace gen", "",
              "int main(int argc, char **argv) {",
              "  return ex::exprMain<VT, gen::All, gen::Pairs>(argc, argv);",
              "}", ""]
    src = "\n".join(lines)
    h = hashlib.sha1(src.encode()).hexdigest()[:10]
    os.makedirs(path_dir, exist_ok=True)
    path = os.path.join(path_dir, "gen_expr_%s_%s.cpp" % (label, h))
    if not os.path.exists(path):
        tmp = "%s.%d.tmp" % (path, os.getpid())
        with open(tmp, "w") as f:
            f.write(src)
        os.replace(tmp, path)
    return path, h


def programs(seed, nrandom, exact, per_tu, out_dir, label, maxin=3):
    """catalogue + nrandom random expressions split into TUs of per_tu."""
    global MAXIN
    MAXIN = maxin   # operand orders 0..maxin bound the admissible expressions
    exprs = catalogue(exact) + random_set(seed, nrandom, exact)
    tus = []
    for i in range(0, len(exprs), per_tu):
        chunk = exprs[i:i + per_tu]
        path, h = emit_tu(chunk, out_dir, "%s%02d" % (label, i // per_tu))
        tus.append((path, h, [e.text() for e in chunk]))
    return tus
