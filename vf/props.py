"""Per-property check specifications (what is built, run, counted, required)."""
from . import build as B
from . import engine as E
from .engine import RunSpec, Spec

CHECKS = {}
NOT_APPLICABLE = {}


def reg(spec):
    CHECKS[spec.prop] = spec
    return spec


def q(tier, quick, thorough):
    return quick if tier == "quick" else thorough


DYADIC = ("floating-point inputs are dyadic rationals with <= 12 significant "
          "bits on the well-scaled family (|x|<=8, spacing>=1/8), so that the "
          "exact image of every input and midpoint is unambiguous; arbitrary "
          "spacings/offsets are decided with the exact rational scalar")
MODEL = ("reference model: ~300 lines of exact polynomial arithmetic in global "
         "coordinates over boost cpp_rational (harness/model.h), cross-checked "
         "against a value-based recursion at run time")

# ----------------------------------------------------------------------- C01


def c01_runs(tier, seed):
    n = q(tier, 24000, 1500000)
    nf = q(tier, 16000, 400000)
    runs = [RunSpec("gen", "Q", "plain", n),
            RunSpec("gen", "d", "plain", nf)]
    if tier == "thorough":
        runs += [RunSpec("gen", "f", "plain", nf),
                 RunSpec("gen", "ld", "plain", nf),
                 RunSpec("gen", "Q", "nochk", n // 4, defines=("MAXP=8",))]
    return runs


reg(Spec(
    "C01", "generated basis == Cox-de Boor B-splines", c01_runs,
    rule=("case k -> order p = k mod 7, multiplicity pattern (k div 7) mod 8 "
          "(simple, clamped, interior repeat 1..p+2, left/right boundary "
          "repeats beyond p+1, random multiplicities, near-minimum length, "
          "long mixed), 2..14 distinct knot values drawn from uniform / "
          "geometric / random-width grids with offsets up to 2^20 (exact) or "
          "on the 1/16 lattice in [-8,8] (floating), one of four construction "
          "routes. Oracle: every returned function equals the model's "
          "Cox-de Boor polynomial on every grid interval (equality for Q, the "
          "C16 rounding bound for floating types); count == m-p-1; plus local "
          "support, C^{p-mu} continuity and partition of unity observed "
          "directly on the output. Non-trivial: at least one non-zero "
          "function; distinct by (p, route, knot vector)."),
    required=["pattern:simple", "pattern:clamped", "pattern:interior-repeat",
              "pattern:left-over-full", "pattern:right-over-full",
              "pattern:random-mult", "pattern:short", "pattern:long-mixed",
              "route:0", "route:1", "route:2", "route:3",
              "obs:partition-of-unity", "obs:continuity"] +
             ["order:%d" % p for p in range(7)],
    assumptions=[DYADIC, MODEL, "orders 0..6 (0..8 in the thorough run)"],
    evaluations="generated",
    technique="runtime monitor: exact reference-model oracle over generated "
              "knot vectors"))


# --------------------------------------------------------------------- setup


def setup(argv):
    """Warm the build cache for the quick tier of every registered check."""
    targets = []
    for prop, spec in sorted(CHECKS.items()):
        if getattr(spec, "custom_targets", None):
            targets += spec.custom_targets("quick", 1)
        else:
            targets += [rs.target() for rs in spec.runs("quick", 1)]
    failed = B.build_all(targets, E.NCPU)
    for t in failed:
        print("setup: build failed for %s (see %s)" % (t.name, t.log))
    print("setup: %d targets, %d failed" % (len({t.name for t in targets}),
                                            len(failed)))
    return 1 if failed else 0
