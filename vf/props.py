"""Per-property check specifications (what is built, run, counted, required)."""
from . import build as B
from . import engine as E
from .engine import RunSpec, Spec

CHECKS = {}
NOT_APPLICABLE = {}


def reg(spec):
    CHECKS[spec.prop] = spec
    return spec


def q(tier, quick, thorough):
    return quick if tier == "quick" else thorough


DYADIC = ("floating-point inputs are dyadic rationals with <= 12 significant "
          "bits on the well-scaled family (|x|<=8, spacing>=1/8), so that the "
          "exact image of every input and midpoint is unambiguous; arbitrary "
          "spacings/offsets are decided with the exact rational scalar")
PLACEMENTS = ["EQ", "A_IN_B", "B_IN_A", "PARTIAL_L", "PARTIAL_R", "TOUCH",
              "GAP", "A_EMPTY", "B_EMPTY", "BOTH_EMPTY", "A_POINT", "B_POINT"]
MODEL = ("reference model: ~300 lines of exact polynomial arithmetic in global "
         "coordinates over boost cpp_rational (harness/model.h), cross-checked "
         "against a value-based recursion at run time")

HIGH_RULE = ("An extreme-order driver (drv_high) runs every kind of operation "
             "once per case for the orders 11, 12, 15, 16, 17, 20, 24, 31, 32, "
             "33, 40, 48, 64 (evaluation, Dx/X, + - * with an order-3 partner, "
             "scalar, cross-order assignment, in-place chain, operator "
             "expressions with Dx<order-1>, Dx<order-2>, Dx<order/2> inside "
             "(product, commutator with X, scaled sum, negated quotient), "
             "linear and bilinear forms) against the exact model. ")


def high_runs(tier, seed, scalars=("Q", "d"), flavour="plain"):
    return [RunSpec("high", sc, flavour, q(tier, 260, 13000)) for sc in scalars]


# ----------------------------------------------------------------------- C01


def c01_runs(tier, seed):
    n = q(tier, 24000, 1500000)
    nf = q(tier, 16000, 400000)
    runs = [RunSpec("gen", "Q", "plain", n),
            RunSpec("gen", "d", "plain", nf),
            RunSpec("gen", "f", "plain", nf), RunSpec("gen", "ld", "plain", nf)]
    if tier == "thorough":
        # every multiplicity vector in {1..p+2}^nd for nd = 2..5, p = 0..6
        total = sum((p + 2) ** nd for p in range(7) for nd in range(2, 6))
        runs += [RunSpec("gen", "Q", "nochk", n // 8, defines=("MAXP=10",)),
                 RunSpec("gen", "d", "nochk", n // 8, defines=("MAXP=10",)),
                 RunSpec("gen", "Q", "plain", total, params={"enum": 1},
                         name="gen-enum"),
                 RunSpec("gen", "d", "plain", total, params={"enum": 1},
                         name="gen-enum")]
    return runs


reg(Spec(
    "C01", "generated basis == Cox-de Boor B-splines", c01_runs,
    rule=("case k -> order p = k mod 7, multiplicity pattern (k div 7) mod 8 "
          "(simple, clamped, interior repeat 1..p+2, left/right boundary "
          "repeats beyond p+1, random multiplicities, near-minimum length, "
          "long mixed), 2..14 distinct knot values drawn from uniform / "
          "geometric / random-width grids with offsets up to 2^20 (exact) or "
          "on the 1/16 lattice in [-8,8] (floating), one of four construction "
          "routes. Oracle: every returned function equals the model's "
          "Cox-de Boor polynomial on every grid interval (equality for Q, the "
          "C16 rounding bound for floating types); count == m-p-1; plus local "
          "support, C^{p-mu} continuity and partition of unity observed "
          "directly on the output. Non-trivial: at least one non-zero "
          "function; distinct by (p, route, knot vector)."),
    required=["pattern:simple", "pattern:clamped", "pattern:interior-repeat",
              "pattern:left-over-full", "pattern:right-over-full",
              "pattern:random-mult", "pattern:short", "pattern:long-mixed",
              "route:0", "route:1", "route:2", "route:3",
              "obs:partition-of-unity", "obs:continuity",
              "supplied-grid:negative-zero",
              "persistent-generator:checked"] +
             ["order:%d" % p for p in range(7)],
    assumptions=[DYADIC, MODEL, "orders 0..6 (0..10 in the thorough run; the "
                 "examples use order 10); the "
                 "thorough tier also enumerates every multiplicity vector in "
                 "{1..p+2}^nd for nd = 2..5 distinct values and p = 0..6 "
                 "(72 044 compositions, pattern 'enumerated')"],
    evaluations="generated",
    technique="runtime monitor: exact reference-model oracle over generated "
              "knot vectors"))


# ----------------------------------------------------------------------- C02


def c02_runs(tier, seed):
    n = q(tier, 16000, 1200000)
    runs = [RunSpec("eval", "Q", "plain", n), RunSpec("eval", "d", "plain", n),
            RunSpec("eval", "ld", "plain", n), RunSpec("eval", "f", "plain", n),
            RunSpec("pool", "Q", "plain", q(tier, 160, 8000)),
            RunSpec("pool", "d", "plain", q(tier, 320, 24000))] + high_runs(
                tier, seed)
    if tier == "thorough":
        runs += [RunSpec("eval", "d", "nochk", n // 2),
                 RunSpec("eval", "Q", "nochk", n // 8, defines=("MAXO=10",)),
                 RunSpec("eval", "d", "nochk", n // 4, defines=("MAXO=10",))]
    return runs


reg(Spec(
    "C02", "evaluation == value of the stored piecewise polynomial", c02_runs,
    rule=("case k -> order k mod 7, window stratum (k div 7) mod 8 (whole "
          "grid, one interval, last interval, empty, point-like, suffix, two "
          "random sub-windows) on a generated grid of 2..12 points with general "
          "coefficients. Abscissae per spline: every point of the WHOLE grid, "
          "the immediate neighbours of every grid point (nextafter / 2^-100), "
          "every midpoint, 8 random points in the grid range, both support "
          "ends +- the smallest step (nextafter for floating types, 2^-40 for "
          "Q), +-1000 outside, 0 and -0. Oracle: outside the closed support the "
          "result is exactly zero; inside it equals the model value of a piece "
          "whose closed interval contains x (either neighbour at a shared grid "
          "point); front()/back() return the window's end points bit-exactly "
          "and throw BSplineException for an empty support. In addition the "
          "pool machine (see C03) evaluates every object it has just written "
          "at every grid point and midpoint after every step of its "
          "histories, so evaluation is also observed after assignments "
          "(same and lower order), moves and in-place updates of objects "
          "that were evaluated before. " + HIGH_RULE + "Non-trivial: "
          "non-zero spline with at least one inside evaluation; distinct by "
          "(order, window, grid, coefficients)."),
    required=["window:whole-grid", "window:one-interval",
              "window:last-interval", "window:empty", "window:point-like",
              "window:suffix-window", "window:sub-window", "x:grid-point",
              "x:grid-point-neighbour",
              "x:just-outside-left", "x:just-outside-right",
              "x:just-inside-left", "x:just-inside-right", "x:far-outside",
              "frontback:empty-throws", "frontback:ends-checked",
              "c02:evaluations-in-history", "checked:evaluate", "order:64",
              "grid:large"] +
             ["order:%d" % p for p in range(7)],
    assumptions=[DYADIC, MODEL, "NaN abscissae are not judged; for a "
                 "point-like support front()/back() may return the point or "
                 "throw"],
    evaluations=["inside-checked", "outside-checked",
                 "c02:evaluations-in-history"],
    technique="runtime monitor: reference-model oracle over generated "
              "splines and boundary-focused abscissae"))

# ----------------------------------------------------------------------- C04


def c04_runs(tier, seed):
    n = q(tier, 60000, 3000000)
    runs = [RunSpec("ops", "Q", "plain", n), RunSpec("ops", "d", "plain", n),
            RunSpec("ops", "f", "plain", n // 3),
            RunSpec("ops", "ld", "plain", n // 3)]
    runs += high_runs(tier, seed)
    if tier == "thorough":
        runs += [
                 RunSpec("ops", "Q", "nochk", n // 6, defines=("MAXO=10",)),
                 RunSpec("ops", "d", "nochk", n // 6, defines=("MAXO=10",))]
    return runs


reg(Spec(
    "C04", "primitive operators are d^n/dx^n and x^n on every interval",
    c04_runs,
    rule=("case k -> spline order k mod 7, n = (k div 7) mod 9 (0..8, so "
          "n = order and n = order+1 occur for every order), operator kind "
          "(Dx, X, identity) from a compiled catalogue of 133 instantiations; "
          "grid of 2..9 points (exact: offsets up to 2^20, width ratios up to "
          "2^10; floating: 1/16 lattice in [-8,8]), window whole / empty / "
          "point-like / last interval / random sub-window, general "
          "coefficients. Oracle: denote(op*s) == model derivative / x^n * "
          "polynomial on every interval of the whole grid, result window == "
          "operand window, identity result == operand. " + HIGH_RULE +
          "Non-trivial: non-zero "
          "operand; distinct by (operator, order, window, grid, "
          "coefficients)."),
    required=["op:Dx%d" % i for i in range(9)] +
             ["op:X%d" % i for i in range(9)] + ["op:Identity0"] +
             ["order:%d" % p for p in range(7)] +
             ["boundary:n==order", "boundary:n==order+1", "window:empty",
              "window:point-like", "window:sub-window", "window:last-interval"],
    assumptions=[DYADIC, MODEL],
    evaluations="applied",
    technique="runtime monitor: reference-model oracle over a compiled "
              "catalogue of operator instantiations and generated operands"))

# ------------------------------------------------ generated programs C05-C07
from . import exprgen as XG  # noqa: E402
import os  # noqa: E402

GEN_DIR = os.path.join(B.CACHE, "gen")
LAST_EXPRS = {}   # scalar -> expression texts of the programs of this run


def expr_post(res, tier, seed):
    cov = res.extra.setdefault("coverage", {})
    cov["programs"] = sum(len(v) for v in LAST_EXPRS.values())
    cov["expressions_by_scalar"] = {k: v[:500] for k, v in LAST_EXPRS.items()}


def expr_runs(tier, seed, flavour="plain", scalars=("Q", "d"), nrandom=None,
              cases_per_tu=None, per_tu=8, maxin=3):
    nrandom = nrandom if nrandom is not None else q(tier, 24, 400)
    cases = cases_per_tu if cases_per_tu is not None else q(tier, 3600, 36000)
    runs = []
    for sc in scalars:
        exact = sc == "Q"
        tus = XG.programs(seed, nrandom, exact, per_tu, GEN_DIR,
                          ("q" if exact else "f") + ("" if maxin == 3 else
                                                     "m%d" % maxin), maxin)
        for path, h, texts in tus:
            LAST_EXPRS.setdefault(sc, [])
            for t in texts:
                if t not in LAST_EXPRS[sc]:
                    LAST_EXPRS[sc].append(t)
            base = os.path.basename(path)[len("gen_expr_"):-len(".cpp")]
            runs.append(RunSpec("expr", sc, flavour, cases, source=path,
                                name="expr-" + base, shards=2,
                                defines=() if maxin == 3 else
                                ("MAXIN=%d" % maxin,)))
    return runs


EXPR_RULE = ("programs: a committed catalogue of 69 operator expressions "
             "(every scalar overload c*E E*c E/c E+c c+E E-c c-E -E with the "
             "spline's own type and with int/long/unsigned/size_t (and, for "
             "floating types, float/double/long double) scalars, sums of "
             "different output sizes, products, the commutator d/dx x - x d/dx, "
             "the example Hamiltonians, spline-valued factors) plus a "
             "VERIF_SEED-dependent random set drawn from the grammar "
             "E ::= I | X<n> | Dx<n> | SplineOperator{f} | c*E | E*c | E/c | "
             "E+c | c+E | E-c | c-E | -E | E+E | E-E | E*E (n = 0..7, depth <= 4, "
             "output order <= 8); the C++ text (temporaries only, minimal parentheses) "
             "and the ModelExpr mirror are printed from one AST. Each "
             "expression is instantiated for operand orders 0..3 inside "
             "operator*, LinearForm and (in pairs, four order pairs) "
             "BilinearForm. Per case: grid of 3..10 points, operand windows "
             "(empty, point-like, whole, sub-window; 12 relative placements of "
             "(a,b) for forms), three factor splines of orders 0,1,2 whose "
             "windows are whole / empty / point-like / ending inside / "
             "starting inside / equal to the operand's window / random, on the "
             "operand's grid object or an equal twin, four run-time scalars. ")


def expr_deep(tier, seed):
    """thorough only: operand orders 0..4 (catalogue + 40 random per scalar)"""
    if tier != "thorough":
        return []
    return expr_runs(tier, seed + 1000003, nrandom=40, cases_per_tu=24000,
                     per_tu=6, maxin=4)


def c05_runs(tier, seed):
    runs = expr_runs(tier, seed) + expr_deep(tier, seed) + expr_ld(tier, seed)
    if tier == "thorough":   # the other compiler: catalogue + 40 random
        runs += expr_runs(tier, seed, flavour="clang", scalars=("Q", "d"),
                          nrandom=40, cases_per_tu=12000)
    runs += [RunSpec("pool", "Q", "plain", q(tier, 160, 5000))]
    runs += high_runs(tier, seed)
    return runs


reg(Spec(
    "C05", "operator expressions act as the differential expression they spell",
    c05_runs,
    rule=EXPR_RULE + "C05 oracle: denote(E*s) == ModelExpr(E) applied to every "
         "stored polynomial of s (a factor contributes v*p where it has that "
         "interval and 0 elsewhere), result window == operand window; exact "
         "for Q, C16 bound with the absolute interpretation of the expression "
         "for floating types. Every expression object is also kept alive "
         "together with its operand and applied again in a later case, after "
         "the grids and splines of other cases have come and gone. " +
         HIGH_RULE + "Non-trivial: the exact result is non-zero; "
         "distinct by (expression, operand, factors, scalars).",
    required=["apply", "apply:order0", "apply:order3",
              "apply:long-lived-operator", "order:64",
              "checked:expr-commutator-Dx<order-1>-X",
              "factor-window:ends-inside-operand",
              "factor-window:starts-inside-operand", "factor-window:empty",
              "factor-window:point-like"],
    assumptions=[DYADIC, MODEL, "expression types are sampled (catalogue + "
                 "random set per seed), not enumerated; operand orders 0..3"],
    evaluations=None,
    post=expr_post,
    technique="runtime monitor over generated programs: each expression is "
              "compiled against the real headers and its results compared "
              "with an interpreter of the same AST over the reference model"))


def expr_ld(tier, seed):
    """the catalogue alone over long double and float"""
    return expr_runs(tier, seed, scalars=("ld", "f"), nrandom=0,
                     cases_per_tu=q(tier, 1800, 18000))


def form_sweep_runs(tier, seed):
    """forms inside the order-pair sweep (orders up to 8, all placements)"""
    return [RunSpec("arith", "Q", "plain", q(tier, 1680, 200000)),
            RunSpec("arith", "d", "plain", q(tier, 3360, 400000)),
            RunSpec("arith", "ld", "plain", q(tier, 1680, 200000))]


def c06_runs(tier, seed):
    return expr_runs(tier, seed) + expr_deep(tier, seed) + expr_ld(
        tier, seed) + high_runs(tier, seed) + form_sweep_runs(tier, seed) + [
        RunSpec("pool", "Q", "plain", q(tier, 160, 5000)),
        RunSpec("pool", "d", "plain", q(tier, 320, 12000))]


reg(Spec(
    "C06", "bilinear forms == exact integral of the two transformed splines",
    c06_runs,
    rule=EXPR_RULE + "C06 oracle: BilinearForm{E1,E2}(a,b) == sum over the "
         "intervals common to both windows of the exact integral of "
         "ModelExpr(E1)(a)*ModelExpr(E2)(b), 0 without a common interval; "
         "through the library only (Q): swap symmetry, linearity in the first "
         "argument, BilinearForm{E2} == identity on the left, ScalarProduct "
         "== BilinearForm{} == plain integral of a*b; the same expression "
         "type on both sides holding different state (other scalars and "
         "factor splines) applied to the very same spline object. The pool "
         "machine (see C03) adds ScalarProduct and BilinearForm{X,Dx} over its "
         "objects in the middle of histories (moved-from, interval-free and "
         "point-like objects included), and after every step the "
         "ScalarProduct of each written object with itself and its identity "
         "LinearForm are compared with the integrals of its own stored "
         "pieces. The order-pair sweep (drv_arith) "
         "computes ScalarProduct (both argument orders), BilinearForm{X<1>,"
         "Dx<1>}(a,b) and BilinearForm{X<2>,Dx<2>}(b,a) for every order pair "
         "with max(order) in 5..8, all 12 placements, small and 65..130-point "
         "grids. " + HIGH_RULE + "Non-trivial: exact "
         "value non-zero.",
    required=["bilinear", "bilinear:metamorphic",
              "bilinear:same-type-different-state", "forms:scalar-product",
              "forms:after-write", "forms:sweep:scalar-product", "forms:sweep:orders:8,5",
              "forms:sweep:orders:0,8", "forms:sweep:place:PARTIAL_L",
              "forms:bilinear-X-Dx", "place:forms:A_EMPTY",
              "bilinear:no-common-interval", "bilinear:parity:oddxodd",
              "bilinear:parity:evenxodd", "bilinear:parity:oddxeven",
              "bilinear:parity:evenxeven"] +
             ["bilinear:place:" + p for p in
              ["EQ", "A_IN_B", "B_IN_A", "PARTIAL_L", "PARTIAL_R", "TOUCH",
               "GAP", "A_EMPTY", "B_EMPTY", "BOTH_EMPTY", "A_POINT",
               "B_POINT"]],
    assumptions=[DYADIC, MODEL, "expression pairs (E_i, E_i+1) of each "
                 "generated translation unit, spline order pairs (0,1) (2,0) "
                 "(1,3) (3,2)"],
    evaluations=None,
    post=expr_post,
    technique="runtime monitor over generated programs: exact-integral "
              "oracle plus metamorphic relations through the library"))


def c07_runs(tier, seed):
    return expr_runs(tier, seed) + expr_deep(tier, seed) + expr_ld(
        tier, seed) + high_runs(tier, seed) + form_sweep_runs(tier, seed) + [
        RunSpec("pool", "Q", "plain", q(tier, 160, 5000)),
        RunSpec("pool", "d", "plain", q(tier, 320, 12000))]


reg(Spec(
    "C07", "linear forms == exact integral; bilinear == linear of the product",
    c07_runs,
    rule=EXPR_RULE + "C07 oracle: LinearForm{E}(a) == sum over a's intervals "
         "of the exact integral of ModelExpr(E)(a), 0 for interval-free a, "
         "== LinearForm{}(E*a) through the library; and for every bilinear "
         "case BilinearForm{E1,E2}(a,b) == LinearForm{}((E1*a)*(E2*b)) "
         "exactly (Q), also for the same expression type on both sides "
         "holding different state and applied to the very same spline "
         "object. The order-pair sweep (drv_arith) computes "
         "LinearForm{X<2>} and LinearForm{} for every order 0..8 operand on "
         "small and 65..130-point grids. " + HIGH_RULE +
         "Non-trivial: exact value non-zero.",
    required=["linear", "linear:interval-free", "linear:outsize-parity:odd",
              "linear:outsize-parity:even", "linear:vs-apply",
              "bilinear:metamorphic", "forms:linear-X2",
              "forms:linear-identity", "forms:after-write",
              "linear:same-type-different-state", "forms:sweep:linear-X2",
              "forms:sweep:linear-identity"] +
             ["linear:outsize:%d" % i for i in range(1, 9)],
    assumptions=[DYADIC, MODEL],
    evaluations=None,
    post=expr_post,
    technique="runtime monitor over generated programs: exact-integral "
              "oracle plus the bilinear/linear consistency relation"))

# ----------------------------------------------------------------------- C08
DIFFS = ["twin", "moved-first", "moved-last", "moved-inner", "extra-left",
         "extra-right", "extra-inside", "prefix", "suffix",
         "equal-where-supports-meet", "two-moved-sum-preserved"]
ENTRIES = ["add", "sub", "mul", "add-assign", "sub-assign",
           "linear-combination", "bilinear-form", "bilinear-form-operators",
           "factor-apply", "factor-linear-form", "factor-bilinear-form",
           "support-union", "support-intersection"]


def c08_runs(tier, seed):
    n = q(tier, 80000, 6000000)
    runs = [RunSpec("grids", "Q", "plain", n), RunSpec("grids", "d", "plain", n),
            RunSpec("pool", "Q", "nochk", q(tier, 160, 5000))]
    if tier == "thorough":
        runs += [RunSpec("grids", "f", "nochk", n // 4),
                 RunSpec("grids", "ld", "nochk", n // 4)]
    return runs


reg(Spec(
    "C08", "operations across different grids are refused, never computed",
    c08_runs,
    rule=("case k -> grid difference k mod 11 (equal twin as the control, "
          "zero points spelt -0.0 in one of them; first / last / inner point "
          "moved; extra point left / right / inside; prefix; suffix; grids "
          "that agree on the whole hull of both supports and differ only "
          "outside it; two neighbouring points moved towards each other so "
          "that size and sum of the points are preserved), entry point "
          "(k div 11) mod 15 "
          "(+ - * += -= linearCombination with the odd one out at a random "
          "position, ScalarProduct, BilinearForm{X,Dx}, integrate<3> "
          "(floating types), E(V)*s, LinearForm{Dx*E(V)}(s), "
          "BilinearForm{X+E(V)} in either slot, where E(V) wraps the spline "
          "factor V in one of ten expression shapes (V, c*V, V*c, V/c, -V, "
          "c*(X*V), Dx+c*V, V+c, c-V, (V*Dx)/2), Support union / intersection), orders "
          "0..2 x 0..2, 12 relative placements of the two windows including "
          "interval-free arguments; every 16th case: generator with a supplied "
          "grid; every 16th case: a long-lived SplineOperator whose previous "
          "operand lived on a separate-but-equal grid instance that has been "
          "destroyed since is applied (operator*, LinearForm, BilinearForm) to "
          "a different grid of the same size. Oracle: logically different grids => BSplineException with "
          "DIFFERING_GRIDS (generator: any code), no result, both arguments "
          "bit-identical and on the same grid objects afterwards; for spline "
          "factors only when the operator is applied to at least one interval; "
          "equal twin => no exception and the result == the result obtained "
          "with a shared instance. The pool machine adds refused calls in the "
          "middle of histories. Non-trivial: a call that must be refused; "
          "distinct by full input."),
    required=["diff:" + d for d in DIFFS] + ["entry:" + e for e in ENTRIES] +
             ["factor-shape:" + x for x in
              ["V", "c*V", "V*c", "V/c", "-V", "c*(X*V)", "Dx+c*V", "V+c",
               "c-V", "(V*Dx)/2"]] +
             ["refused", "twin-agrees", "generator-refused",
              "c08:refused-in-history", "persistent-operator:refused",
              "long-lived-spline:checked",
              "twin:negative-zero"],
    assumptions=["for a bilinear form over operands without a common interval "
                 "the factor is never consulted; such calls are counted as "
                 "not judged", "checkOverlap and assignment across grids are "
                 "not part of the statement"],
    evaluations=["calls", "generator-calls"],
    technique="runtime monitor: outcome + before/after snapshots of every "
              "entry point over systematically constructed grid pairs"))

# ----------------------------------------------------------------------- C13


def access_cases(N):
    return sum(1 + n * (n + 1) // 2 for n in range(2, N + 1))


def c13_runs(tier, seed):
    N = q(tier, 9, 12)
    ex = access_cases(N)
    runs = [RunSpec("access", sc, "plain", ex, params={"maxn": N})
            for sc in ("d", "Q")]
    # random windows on grids of 300 / 70 000 points: without the self-checks
    # (with them every accessor call re-validates the whole grid)
    runs.append(RunSpec("access", "d", "nochk", q(tier, 64, 4000),
                        params={"maxn": N, "exhaustive": 0}))
    return runs


reg(Spec(
    "C13", "support windows form the expected interval algebra over the grid",
    c13_runs,
    rule=("For every window a long-lived support is compared with the same "
          "window on a separate-but-equal grid instance (true, then the "
          "instance is destroyed) and on a logically different grid of the "
          "same size allocated right afterwards (address reuse is counted): "
          "equality, hasSameGrid, union and intersection must follow the "
          "points, not the history. "
          "Exhaustive small scope: every grid size n = 2..N (N = 9 quick, 12 "
          "thorough), every window of the grid (the empty window plus all "
          "(start,end) pairs: 29 at n = 7, 79 at n = 12), every ordered pair "
          "(second operand on the same grid object and on an equal twin) and "
          "every ordered triple of windows. A window is modelled as the set of "
          "its grid-point indices: union == hull (the non-empty operand if the "
          "other is empty), intersection == set intersection as a window, "
          "commutativity, associativity, idempotence (as windows and as "
          "Support ==), equality <=> same window or both empty. For every "
          "window and every index in {0..n+2, 2^63-1, 2^63, 2^64-1-k (k <= "
          "n+2), 2^64-start+j (j < size)}: relativeFromAbsolute / "
          "intervalIndexFromAbsolute / absoluteFromRelative are mutually "
          "inverse on contained indices and report 'not contained' / throw "
          "otherwise; size, numberOfIntervals, containsIntervals, empty, "
          "iteration, front/back, at, [] describe the same window; the index "
          "values also include 2^8, 2^16, 2^31, 2^32, 2^33, 2^48 +- k (values "
          "that alias a small index when truncated). One case = one (n, first "
          "window); distinct by construction. Beyond the exhaustive scope: "
          "random window triples on grids of 300 and 70 000 points, half of "
          "them hugging the 256 / 65 536 boundaries, with the same oracles. "
          "Iterators and references handed out by a support must stay valid "
          "and keep describing the window across const operations with "
          "supports on an equal twin grid; assignment between interval-free "
          "supports on different grids moves the grid along."),
    required=["long-lived-support:checked", "pairs", "triples", "index-probes", "index-probes:near-SIZE_MAX",
              "gridsize:2", "gridsize:7", "large-grid:300", "large-grid:70000",
              "reference-stability", "empty-assignment-across-grids"],
    assumptions=["scope bound N on the grid size; grid point values are "
                 "irrelevant to the index algebra (one fixed increasing "
                 "sequence per size)"],
    evaluations=["pairs", "triples", "index-probes"],
    exhaustive=True,
    technique="runtime monitor: set-model oracle over an exhaustive "
              "enumeration of windows, pairs, triples and index values"))

# ----------------------------------------------------------------------- C11


def c11_runs(tier, seed):
    # all sequences of length 0..L over a 7-letter alphabet: (7^(L+1)-1)/6
    L = q(tier, 6, 8)
    total = (7 ** (L + 1) - 1) // 6
    per = q(tier, 64, 1024)
    blocks = (total + per - 1) // per
    other = q(tier, 1600, 160000)
    params = {"gridblocks": blocks, "gridpercase": per}
    return [RunSpec("validate", sc, "plain", blocks + other, params=params)
            for sc in ("d", "Q")] + [
        RunSpec("gen", "Q", "plain", q(tier, 4000, 100000)),
        RunSpec("pool", "d", "plain", q(tier, 160, 10000))]


reg(Spec(
    "C11", "malformed input is rejected at the boundary with BSplineException",
    c11_runs,
    rule=("an independent predicate valid(args), written from the statement, "
          "decides every call; outcome must be 'object' iff valid and every "
          "refusal must be a BSplineException (a foreign exception type is a "
          "violation). Grid: ALL sequences of length 0..6 (0..8 thorough) over "
          "{-inf,-1,0,1,2,NaN,+inf} (exact type: seven rationals) through the "
          "vector / iterator / shared_ptr / initializer_list constructors and "
          "as knot vectors, plus sequences of 3..40 points with one defect "
          "(swap, duplicate, NaN, infinity) at a random position incl. first "
          "and last, the null shared_ptr, iterator ranges of a wider value "
          "type whose neighbours collapse when stored as T, and single-pass "
          "std::istream_iterator ranges. Support: every (start,end) in "
          "{0..n+2, 2^64-1-k, 2^63} for n = 2..7. Spline: every coefficient "
          "count 0..n+1 against every window. Generator: knot vectors of "
          "length 2..9 with repeats against orders 0..5 and 8 (both sides of "
          "the bound size >= order+1, member and free function), supplied "
          "grid equal / differing in four ways. linearCombination: all size "
          "pairs 0..4 (containers and iterators) and reversed iterator ranges. "
          "Interpolation (orders 1..4, a solver stub): all (|x|,|y|) in 0..4 "
          "and boundary derivative orders 0..order+1, 257, 65537, 2^32, "
          "2^32+1, 2^63, 2^64-1 at every array position on FIRST and LAST. "
          "Distinct by (entry point, arguments)."),
    required=["grid-vector:valid", "grid-vector:invalid",
              "grid-initializer-list:valid", "grid-null-shared-ptr:invalid",
              "generator-knots:valid", "generator-knots:invalid",
              "generator-order:valid", "generator-order:invalid",
              "generator-supplied-grid:valid",
              "generator-supplied-grid:invalid", "support:valid",
              "support:invalid", "spline-coefficient-count:valid",
              "spline-coefficient-count:invalid", "linear-combination:valid",
              "linear-combination:invalid",
              "linear-combination-reversed-range:invalid",
              "linear-combination-all-interval-free:valid",
              "grid-long:over-60-points",
              "interpolate-sizes:valid",
              "interpolate-sizes:invalid", "interpolate-boundary:valid",
              "interpolate-boundary:invalid", "interpolate-boundary:node:LAST",
              "grid-exhaustive-length:6"],
    assumptions=["Support(k,k) with k > 0 is documented neither way: counted, "
                 "not judged", "infinities are ordinary ordered values and "
                 "are accepted as grid points", "a particular error code is "
                 "not demanded"],
    evaluations=lambda cnt: sum(v for k, v in cnt.items()
                                if k.endswith(":valid") or k.endswith(":invalid")),
    exhaustive=False,
    technique="runtime monitor: accept-iff-valid oracle over exhaustive "
              "small sequences and generated argument tuples"))

# ----------------------------------------------------------------------- C12


def c12_runs(tier, seed):
    n = q(tier, 6000, 400000)
    runs = [RunSpec("interp", "Q", "plain", n),
            RunSpec("interp", "d", "plain", n),
            RunSpec("interp", "ld", "plain", n // 2)]
    if tier == "thorough":
        runs += [RunSpec("interp", "f", "plain", n // 2),
                 RunSpec("interp", "Q", "nochk", n // 8, defines=("MAXORD=7",))]
    return runs


reg(Spec(
    "C12", "interpolation reproduces data, smoothness and boundary conditions",
    c12_runs,
    rule=("case k -> order 1 + k mod 5; 2..10 abscissae taken as a window "
          "(offset 0..2 on either side) of a generated grid (uniform, "
          "geometric with ratios up to 2^10, random widths; floating: 1/16 "
          "lattice in [-8,8]), general ordinates, default boundaries (1/3) or a "
          "random admissible set with distinct (node, derivative 1..order) "
          "pairs and arbitrary values. Problems whose exactly re-assembled "
          "system is singular are counted and skipped. Exact oracle (generic "
          "interpolate over the archetype rational with a harness-side "
          "Gaussian elimination): the value at every abscissa from BOTH "
          "adjacent pieces equals the ordinate, one-sided derivatives 1..order-1 "
          "agree at every interior abscissa, every boundary row holds, result "
          "window == given support - all exactly. Bundled solver "
          "(interpolateUsingEigen): ||M x - b||_2 <= 2^10 n eps (||M||_F "
          "||x||_2 + ||b||_2) for the system re-assembled by the harness in "
          "exact arithmetic from the statement. Distinct by full input."),
    required=["problems", "boundaries:default", "boundaries:custom",
              "boundary:LAST", "boundary:derivative>=2",
              "boundary:nonzero-value", "abscissae:two-points",
              "abscissae:window-of-larger-grid", "abscissae:many",
              "data-scale:tiny", "data-scale:huge", "ordinates:all-zero",
              "nodes-checked",
              "boundary-rows-checked", "residuals-checked"] +
             ["order:%d" % i for i in range(1, 6)],
    assumptions=[DYADIC, "uniquely solvable problems only (decided by exact "
                 "elimination of the harness-assembled system)",
                 "the bundled solver (rank-revealing QR) is judged only on "
                 "problems it can solve in its arithmetic: cond_2(M) n eps 2^10 "
                 "<= 1 (others are counted as ill-conditioned and skipped)"],
    evaluations="problems",
    technique="runtime monitor: exact condition-by-condition oracle (exact "
              "solver) and backward-error oracle (bundled solver) over "
              "generated interpolation problems"))

# ----------------------------------------------------------------------- C17


def c17_runs(tier, seed):
    n = q(tier, 96000, 2000000)
    return [RunSpec("quad", sc, "plain", n) for sc in ("d", "f", "ld")]


reg(Spec(
    "C17", "Gauss-Legendre quadrature matches the analytic forms where exact",
    c17_runs,
    rule=("case k -> spline orders (k mod 5, (k div 5) mod 5), weight degree "
          "(k div 25) mod 4, quadrature size n in {n_min-1, n_min, n_min+1, "
          "2*max order} with n_min the smallest n with 2n-1 >= o1+o2+d "
          "(compiled catalogue n = 1..8; every eighth case from a second "
          "catalogue with orders 5 and 6 and n = 7..32), 12 relative "
          "placements of the two "
          "windows on a grid of 6..10 points (second spline on the same grid "
          "object or an equal twin), general dyadic coefficients and weights. "
          "The weight is a probe callable that records every abscissa it is "
          "called with. Oracle: the probe saw exactly n abscissae strictly "
          "inside every interval common to both windows, none anywhere else "
          "and none at all without a common interval (for every n, also below "
          "the exactness bound); where 2n-1 >= o1+o2+d: |numeric - "
          "BilinearForm{sum w_k X<k>}(m1,m2)| and |numeric - exact integral| "
          "<= 2^20 eps S with S = sum over common intervals of width * "
          "(sum|w_k||x|^k)(sum|c1_i|h^i)(sum|c2_j|h^j). Constant weights "
          "returned as int, long, bool, unsigned, float and double (a type "
          "other than the splines' scalar) must give the same integral. "
          "Non-trivial: exact "
          "rule with a non-zero exact integral; distinct by full input."),
    required=["rule:exact", "rule:below-exactness-bound", "rule:at-the-bound",
              "sampling-region-checked", "values-compared",
              "no-common-interval"] +
             ["place:" + p for p in PLACEMENTS] +
             ["n:%d" % i for i in range(1, 9)] +
             ["n:%d" % i for i in (9, 10, 12, 16, 20, 32)] +
             ["wide-catalogue", "orders:6,6", "weight-return-type:int",
              "weight-return-type:float", "weight-return-type:bool"] +
             ["weight-degree:%d" % i for i in range(4)],
    assumptions=[DYADIC, "float, double, long double (boost's Gauss-Legendre "
                 "needs a floating type)"],
    evaluations="calls",
    technique="runtime monitor: probe callable recording the sampled "
              "abscissae + exact-integral oracle over generated spline pairs"))

# ----------------------------------------------------------------------- C18


def c18_runs(tier, seed):
    th = ["-pthread"]
    runs = [
        # many short-lived processes: first-use initialisation (function-local
        # statics, lazily filled tables) happens under contention in each
        RunSpec("threads", "d", "tsan", q(tier, 96, 2000), shards=q(tier, 32, 200),
                libs=th),
        RunSpec("threads", "Q", "tsan", q(tier, 32, 600), shards=q(tier, 16, 100),
                libs=th, params={"len": 16}),
        RunSpec("threads", "d", "nochk", q(tier, 640, 30000), shards=32, libs=th),
        # forced preemption: the same workload pinned to two cores
        RunSpec("threads", "d", "nochk", q(tier, 96, 6000), shards=4, libs=th,
                params={"pin": 2}),
        RunSpec("threads", "d", "tsan", q(tier, 32, 800), shards=q(tier, 8, 80),
                libs=th, params={"pin": 2, "len": 16}),
    ]
    if tier == "thorough":
        runs += [RunSpec("threads", "d", "tsan-clang", 1000, shards=100, libs=th),
                 RunSpec("threads", "ld", "nochk", 10000, shards=32, libs=th)]
    return runs


reg(Spec(
    "C18", "concurrent read-only use is race-free and deterministic", c18_runs,
    rule=("one case = one round: shared const objects are built (grid of 7..10 "
          "or, one round in four, 65..100 points + equal twin instance, generator, B-spline bases of orders 0..3, splines on "
          "sub-windows and on the twin grid, an operator with a spline factor, "
          "const bilinear and linear forms), then 2..32 threads leave a start "
          "barrier and each runs a script of 24 actions that depends only on "
          "(seed, round, logical id): evaluate, copy/move/destroy splines, "
          "supports and grids, a+b, a*b (operands on different grid objects), "
          "X<1..7>*s, Dx<1..3>*s, shared operator application, shared and "
          "fresh bilinear/linear forms, generateBSplines<2..4> on the shared "
          "generator, isZero on five instantiations, linearCombination, "
          "getData/findElement, comparisons across grid objects, combining "
          "shared objects with a thread-private equal grid, support algebra, "
          "numerical quadrature, interpolation of shared data with the bundled "
          "solver, eleven kinds of calls that must be refused (exception paths "
          "run concurrently; outcome and message length are part of the "
          "digest), template arguments no other action uses (X<6>, X<8>, "
          "Dx<4>, Dx<6>, generateBSplines<1>, <5>, cross-order assignment); "
          "seed-chosen sched_yield/nanosleep between "
          "calls. Oracle 1: ThreadSanitizer (any report fails). Oracle 2: each "
          "thread's digest of all result bit patterns equals the digest of the "
          "same script run sequentially AFTER the concurrent phase. Runs are "
          "split over many short-lived processes so that first-use "
          "initialisation happens under contention, plus one pass pinned to "
          "two cores (sched_setaffinity inside the driver, also under TSan). "
          "distinct_nontrivial counts distinct (round, order in "
          "which the threads completed their first action) signatures."),
    required=["rounds", "operations", "threads:2", "threads:32",
              "shared-grid:large",
              "overlap:evaluate|evaluate", "overlap:add|multiply",
              "overlap:apply-X|apply-X", "overlap:compare|own-grid-instance",
              "overlap:copy-destroy|copy-destroy",
              "overlap:bilinear-form|bilinear-form",
              "overlap:generateBSplines|isZero",
              "overlap:interpolate|interpolate",
              "overlap:refused-calls|refused-calls",
              "overlap:rare-instantiations|rare-instantiations"],
    assumptions=["TSan's happens-before analysis covers the code paths that "
                 "were executed concurrently; the overlap counts are evidence "
                 "of stress, not the detector", "x86-64, g++ 12 (clang 14 in "
                 "the thorough tier)"],
    evaluations="operations",
    technique="ThreadSanitizer + determinism oracle (per-thread digests vs "
              "sequential replay) under a stress workload with injected "
              "yields and core pinning"))

# ----------------------------------------------------------------------- C20
EXDIR = os.path.join(B.REPO, "examples")


def ex_spec(which, src, flavour, cases, shards):
    return RunSpec("examples", None, flavour, cases, shards=shards,
                   defines=("EX_" + which, "BSPLINE_INTERPOLATION_USE_EIGEN",
                            "BSPLINE_ADD_TEST_CHECKS"),
                   extra_sources=[os.path.join(EXDIR, f) for f in src],
                   extra_flags=("-I" + EXDIR,), name="ex-" + which.lower())


def c20_runs(tier, seed):
    runs = []
    for fl in ("asan", "dbgstl"):
        runs += [
            ex_spec("DIFFUSION", ["diffusion.cpp"], fl, q(tier, 300, 3000), 15),
            ex_spec("POTENTIAL", ["spline-potential.cpp"], fl,
                    q(tier, 96, 960), 16),
            ex_spec("FIXED", ["harmonic-oscillator.cpp", "hydrogen.cpp"], fl,
                    2, 2),
        ]
    if tier == "thorough":
        runs += [ex_spec("DIFFUSION", ["diffusion.cpp"], "nochk", 30000, 16),
                 ex_spec("POTENTIAL", ["spline-potential.cpp"], "nochk", 6000,
                         16)]
    return runs


reg(Spec(
    "C20", "the shipped example solvers are well-defined and solve their problems",
    c20_runs,
    rule=("the example sources of /repo/examples are compiled (order-10 "
          "splines, Eigen) in the asan (ASan+UBSan+libstdc++ assertions) and "
          "dbgstl (checked STL) flavours; any sanitizer report, debug-mode "
          "diagnostic or fatal signal is a violation. Diffusion: grids of "
          "2,3,4,5,6,8,10,11,12,13,14,17,21,30,40 points (uniform, random "
          "widths, off-centre, two fine layers of 0.01 bridged by one element "
          "of 1.0, graded 2x per interval up to 256x, alternating 0.02 / 0.9), "
          "constant or piecewise-constant positive D "
          "with jumps of 50x and 1000x, boundary values of both signs and "
          "zero; oracle: c attains the prescribed values at both ends (1e-9 "
          "* scale), scaling D by 2 and 3 changes c by <= 1e-6 * scale on "
          "every grid point and 4 raster points per interval, constant D gives "
          "the straight line (1e-8 * scale), c(s,e) = s*c(1,0) + e*c(0,1) "
          "(1e-6 * scale) and the mirrored problem (reflected grid and "
          "coefficient, swapped boundary values) gives the mirrored solution "
          "(1e-5 * scale); a "
          "coefficient given on a window of the grid is either refused with "
          "BSplineException or solved. Spline potential: x^2/2 and "
          "cosh-type potentials interpolated on 21..56 points, random cubic "
          "splines on the whole grid and supported only on the middle half; "
          "oracle: the ten eigenvalues of v+c equal those of v plus c "
          "(1e-9 relative) for shifts from 0.125 to 25 000, the spectrum of "
          "the mirrored random potential equals the original one (1e-8), random "
          "potentials also on grids centred up to 200 away from the origin, and "
          "the three lowest states of the interpolated x^2/2 on a uniform "
          "domain of half width >= 5 are 1/2, 3/2, 5/2 within 2e-2. Harmonic "
          "oscillator and hydrogen: n+1/2 and "
          "-1/n^2 with the suite's tolerances (1e-12, 5e-12). Distinct by "
          "full input."),
    required=["diffusion:solves", "diffusion:constant-D",
              "diffusion:piecewise-D", "diffusion:nonzero-end-value",
              "diffusion:straight-line-checked", "diffusion:points:2",
              "diffusion:points:11", "diffusion:points:40",
              "potential:shift-checked", "potential:mirror-checked",
              "potential:harmonic-spectrum-compared",
              "potential:off-centre-grid", "potential:interpolated",
              "potential:partial-support", "potential:random-whole-grid",
              "harmonic-oscillator:solves", "hydrogen:solves"],
    assumptions=["tolerances are metamorphic (solution against solution) and "
                 "calibrated: largest deviations observed on the unchanged "
                 "tree over 13 000 diffusion and 2 800 potential cases are "
                 "5e-13 (boundary), 2.7e-11 (scaling, heavy-tailed), 6.4e-13 "
                 "(straight line), 6.5e-14 (eigenvalue shift), 2.6e-12 "
                 "(linearity), 1.2e-11 (diffusion mirror), 1.6e-12 (potential "
                 "mirror), 6.5e-3 (harmonic low states); with the layered and "
                 "graded grids (12 000 more cases): 8e-13 boundary, 6e-11 "
                 "scaling, 4e-12 straight line, 8e-11 linearity, 2.8e-10 mirror", "agreement with the "
                 "solution of the continuous diffusion problem is not judged: "
                 "with jumps of 1000x the smooth order-10 basis deviates from "
                 "the kinked exact solution by up to 0.8 |end-start| on the "
                 "unchanged tree", "the spline-potential "
                 "solver returns ten states and therefore needs at least 21 "
                 "grid points", "accuracy against the continuous solution is "
                 "not demanded"],
    evaluations=["diffusion:solves", "potential:solves",
                 "harmonic-oscillator:solves", "hydrogen:solves"],
    technique="sanitizers (ASan+UBSan, libstdc++ assertions, checked STL) on "
              "the real example sources + metamorphic solution oracles"))

# ----------------------------------------------------------------------- C09
MEM_KINDS = ("asan:", "ubsan:", "glibcxx-assertion", "glibcxx-debug", "SIGSEGV",
             "SIGBUS", "SIGFPE", "SIGILL", "memcheck:", "signal-")


def san_runs(tier, seed, fl, scale=1.0, with_expr=True, with_examples=True):
    """every driver of this framework in one sanitizer flavour"""
    def n(qk, th):
        return max(2, int(q(tier, qk, th) * scale))
    runs = [
        RunSpec("gen", "d", fl, n(12000, 200000)),
        RunSpec("gen", "Q", fl, n(6000, 60000)),
        RunSpec("eval", "d", fl, n(16000, 200000)),
        RunSpec("pool", "d", fl, n(640, 12000)),
        RunSpec("pool", "Q", fl, n(192, 3000)),
        RunSpec("ops", "d", fl, n(60000, 600000)),
        RunSpec("arith", "d", fl, n(3360, 100000)),
        RunSpec("high", "d", fl, n(130, 2600)),
        RunSpec("grids", "d", fl, n(80000, 1000000)),
        RunSpec("access", "d", fl, access_cases(q(tier, 7, 10)),
                params={"maxn": q(tier, 7, 10)}),
        RunSpec("validate", "d", fl, n(1200, 40000),
                params={"gridblocks": n(400, 8000), "gridpercase": 64}),
        RunSpec("interp", "d", fl, n(6000, 60000)),
        RunSpec("interp", "Q", fl, n(2400, 20000)),
        RunSpec("quad", "d", fl, n(24000, 300000)),
        # exception paths in the middle of every kind of call (scalar faults)
        RunSpec("throw", None, fl, n(1120, 22400)),
    ]
    if with_expr:
        runs += expr_runs(tier, seed, flavour=fl, scalars=("d", "Q"),
                          nrandom=q(tier, 8, 120),
                          cases_per_tu=n(3600, 9000))
    if with_examples and fl in ("asan", "asan-clang", "dbgstl"):
        runs += [ex_spec("DIFFUSION", ["diffusion.cpp"], fl, n(45, 900), 15),
                 ex_spec("POTENTIAL", ["spline-potential.cpp"], fl, n(24, 240),
                         12)]
    return runs


def c09_post(res, tier, seed):
    """which library lines did the sanitized workloads reach? (cov flavour:
    the same drivers and seeds at -O0 --coverage, line counters by gcov)"""
    import glob
    import tempfile
    import shutil
    lines = {}   # file -> {lineno: executed?}
    for rs, run in res.extra.get("pairs", []):
        if rs.flavour != "cov":
            continue
        for gcda in glob.glob(run.target.bin + "-*.gcda"):
            tmp = tempfile.mkdtemp(prefix="gcov-", dir=os.path.join(B.CACHE, "run"))
            try:
                subprocess.run(["gcov", "-o", os.path.dirname(gcda), gcda],
                               cwd=tmp, capture_output=True, text=True,
                               timeout=600)
                for g in glob.glob(os.path.join(tmp, "*.gcov")):
                    src = None
                    for ln in open(g, errors="replace"):
                        parts = ln.split(":", 2)
                        if len(parts) < 3:
                            continue
                        cnt, no = parts[0].strip(), parts[1].strip()
                        if no == "0":
                            if parts[2].startswith("Source:"):
                                src = os.path.realpath(parts[2][7:].strip())
                            continue
                        if not src or not src.startswith(
                                os.path.realpath(B.REPO) + os.sep):
                            continue
                        if cnt == "-":
                            continue
                        rel = os.path.relpath(src, os.path.realpath(B.REPO))
                        d = lines.setdefault(rel, {})
                        hit = not cnt.startswith("#") and not cnt.startswith("=")
                        d[int(no)] = d.get(int(no), False) or hit
            finally:
                shutil.rmtree(tmp, ignore_errors=True)
    if not lines:
        return
    summary = {}
    tot = hit = 0
    for f, d in sorted(lines.items()):
        h = sum(1 for v in d.values() if v)
        summary[f] = {"instantiated_lines": len(d), "executed": h,
                      "not_executed": sorted(k for k, v in d.items() if not v)[:60]}
        tot += len(d)
        hit += h
    res.counters["cov:library-lines-instantiated"] = tot
    res.counters["cov:library-lines-executed"] = hit
    res.extra["coverage"] = {"library_line_coverage_of_sanitized_workloads":
                             summary}


def c09_runs(tier, seed):
    runs = san_runs(tier, seed, "asan")
    # line coverage of the same workloads (small counts, -O0 --coverage)
    runs += san_runs(tier, seed, "cov", q(tier, 0.02, 0.002), with_expr=True,
                     with_examples=False)
    if tier == "quick":
        # a small memcheck pass (uninitialised values are invisible to ASan)
        vgq = [RunSpec("pool", "d", "vg", 32), RunSpec("ops", "d", "vg", 2600),
               RunSpec("arith", "d", "vg", 336), RunSpec("high", "d", "vg", 26),
               RunSpec("eval", "d", "vg", 700), RunSpec("gen", "d", "vg", 700)]
        for r in vgq:
            r.wrapper = ["valgrind", "--quiet", "--error-exitcode=77",
                         "--track-origins=no", "--num-callers=12"]
            r.shards = 16
        runs += vgq
    if tier == "thorough":
        runs += san_runs(tier, seed, "asan-clang", 0.3)
        runs += san_runs(tier, seed, "dbgstl", 0.3)
        vg = san_runs(tier, seed, "vg", 0.01, with_expr=False,
                      with_examples=False)
        for r in vg:
            r.wrapper = ["valgrind", "--quiet", "--error-exitcode=77",
                         "--track-origins=no", "--num-callers=12"]
            r.shards = 16
            r.timeout = 4 * 3600
        runs += vg
    return runs


reg(Spec(
    "C09", "no operation touches memory outside its objects or runs into UB",
    c09_runs,
    rule=("first sentence - sanitizers as the oracle: every driver of this "
          "framework (generator, evaluation, pool-machine histories incl. "
          "moved-from and interval-free objects and refused calls, primitive "
          "operators, generated operator-expression programs with spline "
          "factors in every placement, forms, cross-grid calls, accessors, "
          "validation, interpolation, quadrature, calls interrupted by a "
          "throwing scalar type at every operation in turn, the diffusion and "
          "spline-potential examples) is rebuilt with g++ -fsanitize=address,"
          "undefined -fno-sanitize-recover=all -D_GLIBCXX_ASSERTIONS and re-run "
          "with the same seeds; an ASan/UBSan report, libstdc++ assertion or "
          "fatal signal is a violation keyed by (kind, innermost frame under "
          "the repository); functional-oracle output belongs to the other "
          "checks. A small valgrind memcheck pass (uninitialised values) over "
          "the pool, operator, arithmetic, extreme-order, evaluation and "
          "generator drivers is part of the quick tier; thorough adds clang's "
          "ASan/UBSan, checked STL (-D_GLIBCXX_DEBUG) and a larger memcheck "
          "pass. "
          "Second sentence - checked accessors: for every window of every grid "
          "of 2..7 points and every index in {0..n+2, 2^63-1, 2^63, 2^64-1-k, "
          "2^64-start+j}: Grid::at, Support::at, absoluteFromRelative, front, "
          "back throw BSplineException iff the index is outside the view and "
          "otherwise return the element of the view. Distinct/non-trivial as "
          "defined by each driver."),
    required=["index-probes:near-SIZE_MAX", "index-probes:outside",
              "place:op-factor:PARTIAL_L", "place:op-factor:TOUCH",
              "factor-window:ends-inside-operand", "step:move-assign",
              "step:fail-add-assign", "apply", "bilinear", "linear",
              "diffusion:solves", "potential:partial-support", "problems",
              "calls"],
    assumptions=["a clean sanitizer run is not memory safety: non-adjacent "
                 "overflows and reuse of quarantined memory can be missed; "
                 "libstdc++ assertions close the intra-vector std::array gap",
                 "leak freedom is not part of the property", "unchecked "
                 "subscripts are only ever called in range"],
    evaluations=None,
    crash_kinds=MEM_KINDS,
    post=c09_post,
    technique="compiler sanitizers (ASan+UBSan, libstdc++ assertions; "
              "thorough: clang, checked STL, valgrind memcheck) over the "
              "workloads of all other checks + exhaustive accessor-bounds "
              "oracle"))

# ----------------------------------------------------------------------- C16
ROUND_CFG = [(sc, opt) for sc in ("f", "d", "ld") for opt in ("O0", "O2", "O3")]


def c16_runs(tier, seed):
    n = q(tier, 4000, 400000)
    runs = []
    for sc, opt in ROUND_CFG:
        for fl in (opt, opt + "n"):   # self-checks on / off, same seed
            runs.append(RunSpec("round", sc, fl, n, shards=q(tier, 4, 16)))
    # the functional drivers report C16 as well (same oracle, other workloads)
    runs += [RunSpec("gen", "d", "plain", q(tier, 16000, 400000)),
             RunSpec("ops", "d", "plain", q(tier, 60000, 3000000)),
             RunSpec("pool", "d", "plain", q(tier, 640, 30000)),
             RunSpec("arith", "d", "plain", q(tier, 6720, 800000))]
    runs += expr_runs(tier, seed, scalars=("d",))
    if tier == "thorough":
        for sc in ("f", "ld"):
            runs += [RunSpec("gen", sc, "plain", 400000),
                     RunSpec("ops", sc, "plain", 1000000),
                     RunSpec("pool", sc, "plain", 20000)]
        runs += expr_runs(tier, seed, scalars=("f", "ld"), nrandom=100)
    return runs


def c16_post(res, tier, seed):
    """values must not depend on whether the self-checks are compiled in"""
    by = {r["binary"]: r for r in res.per_run}
    compared = 0
    for sc, opt in ROUND_CFG:
        a = by.get("round-%s-%s" % (sc, opt))
        b = by.get("round-%s-%sn" % (sc, opt))
        if not a or not b or "digest" not in a or "digest" not in b:
            res.inconclusive.append("missing digest for round-%s-%s" % (sc, opt))
            continue
        compared += 1
        if a["digest"] != b["digest"]:
            key = "C16/selfcheck-dependence/%s/%s" % (sc, opt)
            res.violations.append({
                "prop": "C16", "key": key,
                "detail": "digest of all result bit patterns with "
                          "-DBSPLINE_ADD_TEST_CHECKS (%s) differs from the one "
                          "without (%s) for type %s at -%s, seed %s" % (
                              a["digest"], b["digest"], sc, opt, seed),
                "replay": {"property": "C16", "key": key, "driver": "round",
                           "source": None, "extra_sources": [],
                           "scalar": sc, "flavour": opt, "defines": [],
                           "extra_flags": [], "libs": [], "name": None,
                           "params": {}, "seed": seed, "case": 0,
                           "cases": 1, "wrapper": None, "env": None,
                           "extra_args": None,
                           "detail": "compare ./check C16 digests"}})
    res.counters["digest-pairs-compared"] = compared
    res.extra["coverage"] = {"digests": {
        r["binary"]: r.get("digest") for r in res.per_run
        if r["binary"].startswith("round-")}}


reg(Spec(
    "C16", "floating-point results stay at rounding level; self-checks inert",
    c16_runs,
    rule=("configurations: float, double, long double x -O0/-O2/-O3 x "
          "self-checks on/off (18 builds of one compact driver). case k -> "
          "order 2 + k mod 5; knot vectors on the 1/16 lattice in [-8,8] with "
          "spacing >= 1/8 (a quarter each: minimal spacing, unit spacing, "
          "powers of two, random; start pinned to -8, to +8, centred, random), "
          "clamped / interior-repeat / random multiplicities; a generated "
          "B-spline and a general order-2 spline (half of them with "
          "full-mantissa coefficients, a sixth with cancelling sign patterns). "
          "Per case every quantity the property names is computed and compared "
          "with the exact rational result for the same inputs: all generated "
          "coefficients, a+b, a-b, a*b, c*a, X<4>, Dx<2>, the chain "
          "((x d/dx - d/dx x + x^2 d^2/dx^2)(x-3)), evaluations next to every "
          "knot and outside the support, ScalarProduct, BilinearForm{X<2>,"
          "Dx<1>}, LinearForm{X<3>}; a general order-6 spline with "
          "full-mantissa coefficients goes through evaluation (incl. interval "
          "ends), X<1>, X<3>, Dx<1>, Dx<5>, sum, LinearForm{}, LinearForm{X<1>}, "
          "ScalarProduct and BilinearForm{X<1>,Dx<1>}. Bound: sum_j|c^_j-c_j|h^j <= 2^20 eps "
          "sum_j S_j h^j per interval (S = absolute interpretation of the "
          "defining formula over the direct operands; generated B-splines: "
          "|c_j|), analogous for scalars; NaN/inf is a violation. Each case "
          "folds the bit patterns of all results into a digest; per (type, "
          "level) the digest with self-checks must equal the one without. "
          "The generator / operator / pool / expression drivers apply the "
          "same bound to their own workloads (double; thorough: all types). "
          "Distinct by (knots, operand coefficients)."),
    required=["cases-run", "edge:|x|=8", "edge:spacing=1/8", "order:6",
              "coefficients:full-mantissa", "checked:generate", "checked:sum",
              "checked:product", "checked:X<4>", "checked:expression-chain",
              "checked:evaluate", "checked:evaluate-outside",
              "checked:scalar-product", "checked:bilinear-form",
              "checked:linear-form", "checked:evaluate-order6",
              "checked:X<3>-order6", "checked:Dx<5>-order6",
              "checked:linear-form-order6", "checked:bilinear-form-order6",
              "checked:X<5>-order6", "checked:X<6>-order6",
              "digest-pairs-compared"],
    assumptions=[DYADIC, "x86-64: SSE2 for float/double, x87 for long double, "
                 "no FMA contraction; bit-equality across optimisation levels "
                 "is not demanded, only the bound"],
    evaluations=None,
    post=c16_post,
    technique="runtime monitor: exact-rational oracle with the property's "
              "2^20 eps bound over edge-of-domain workloads in 18 build "
              "configurations + digest comparison self-checks on/off"))

# ----------------------------------------------------------------------- C19
import re  # noqa: E402
import subprocess  # noqa: E402


def c19_runs(tier, seed):
    N = q(tier, 7, 10)
    runs = [
        RunSpec("gen", "Q", "plain", q(tier, 6000, 300000)),
        RunSpec("eval", "Q", "plain", q(tier, 6000, 300000)),
        RunSpec("pool", "Q", "plain", q(tier, 160, 5000)),
        RunSpec("pool", "Q", "nochk", q(tier, 160, 5000)),
        RunSpec("ops", "Q", "plain", q(tier, 30000, 1000000)),
        RunSpec("grids", "Q", "plain", q(tier, 40000, 1000000)),
        RunSpec("access", "Q", "plain", access_cases(N), params={"maxn": N}),
        RunSpec("validate", "Q", "plain", q(tier, 1500, 60000),
                params={"gridblocks": q(tier, 300, 6000), "gridpercase": 64}),
        RunSpec("interp", "Q", "plain", q(tier, 3000, 100000)),
        RunSpec("arith", "Q", "plain", q(tier, 1680, 100000)),
        RunSpec("high", "Q", "plain", q(tier, 130, 13000)),
    ]
    runs += expr_runs(tier, seed, scalars=("Q",))
    return runs


def c19_post(res, tier, seed):
    """what was actually instantiated over the archetype (nm -C)"""
    names = set()
    for rs, run in res.extra.get("pairs", []):
        try:
            out = subprocess.run(["nm", "-C", "--defined-only", run.target.bin],
                                 capture_output=True, text=True,
                                 timeout=300).stdout
        except (OSError, subprocess.SubprocessError):
            continue
        for line in out.splitlines():
            parts = line.split(" ", 2)
            if len(parts) < 3:
                continue
            sym = parts[2]
            if "vq::Q" not in sym or "bspline::" not in sym:
                continue
            # drop template arguments (innermost first) and the parameter list
            core = sym
            for _ in range(40):
                new = re.sub(r"<[^<>]*>", "", core)
                if new == core:
                    break
                core = new
            core = core.split("(")[0]
            i = core.find("bspline::")
            core = core[i:].strip()
            if "vf::" in core or "std::" in core or "gen::" in core:
                continue
            if core and re.match(r"^bspline::[\w:~+\-*/=!<> ]+$", core):
                names.add(core)
    res.counters["instantiated-library-entities-over-archetype"] = len(names)
    res.extra["coverage"] = {
        "library_templates_instantiated_over_archetype": sorted(names)[:400]}
    for n in names:
        res.hashes.add("nm:" + n)


reg(Spec(
    "C19", "the scalar type needs only the documented operations", c19_runs,
    rule=("the archetype scalar vq::Q (harness/vq.h) offers exactly: "
          "default/copy construction (a default-constructed value is "
          "indeterminate: reading it is counted), explicit construction from a "
          "built-in integer, + - * / with compound forms, unary minus, six "
          "comparisons; conversion from floating types is deleted, "
          "numeric_limits is not specialised (so epsilon(), max() ... answer "
          "with an indeterminate value whose reads are counted), there is no "
          "operator<< and no <cmath> overload. Observations: (a) every "
          "translation unit over the archetype - generator, evaluation, pool "
          "machine (with and without the self-checks), primitive operators, "
          "cross-grid calls, accessors, validation, generic interpolate with a "
          "harness-side exact solver written with the same operations, and all "
          "generated operator-expression programs incl. integer scalars in "
          "every position - compiles against the current tree (a compile "
          "error is the violation, the compiler log the witness); (b) run with "
          "their exact oracles, no result deviates (a violation of any "
          "property in these runs is reported here as well) and no "
          "indeterminate value is read; (c) evidence: the bspline:: templates "
          "found instantiated over the archetype in the binaries (nm -C) and "
          "the operations the archetype counted at run time. "
          "distinct_nontrivial = distinct non-trivial cases of the runs plus "
          "distinct instantiated library entities."),
    required=["generated", "inside-checked", "c03:checked:mul", "applied",
              "calls", "pairs", "problems", "apply", "bilinear", "linear",
              "vq:add", "vq:mul", "vq:div", "vq:compare", "vq:from-integer",
              "instantiated-library-entities-over-archetype"],
    assumptions=["a template or member the harness never instantiates is not "
                 "covered; the evidence lists what was",
                 "numerical quadrature (boost Gauss-Legendre) needs a "
                 "floating type and is not part of the claim"],
    evaluations=None,
    any_prop=True,
    post=c19_post,
    technique="compile-and-run monitor with a minimal archetype scalar "
              "(indeterminate default value, deleted conversions) under exact "
              "oracles"))

# ------------------------------------------------- pool machine: C03/10/14/15
POOL_RULE = ("one case = one history of 150 steps over a pool of 15 splines "
             "(orders 0..4, three slots each, on a grid of 6..10 points held in "
             "two equal instances, plus one spline per order on a logically "
             "different cousin grid). A step is drawn from 45 kinds: + - * += -= "
             "(operands re-seeded in one of 12 relative placements half of the "
             "time), c*a a*c a/c -a *= /= (also with the scalar aliasing an own "
             "coefficient), construct / copy / move / self-assign / self-move / "
             "destroy / empty / point-like, cross-order assignment, Dx X identity "
             "and spline-factor applications, linearCombination over 1..6 members "
             "(incl. interval-free and point-like), predicates, and 11 kinds of "
             "calls that must be refused. After every step: deep bit-level "
             "snapshots of all objects are compared outside the step's write "
             "set, every live object is walked through its public accessors, "
             "and results are compared with the shadow model on every interval "
             "of the whole grid; every object just written is evaluated at "
             "all grid points and midpoints, asked isZero() and == itself, "
             "and integrated (ScalarProduct with itself, identity LinearForm) "
             "against its own stored pieces. ")
POOL_NT = ("Non-trivial/distinct: arithmetic steps whose operands all denote "
           "non-zero functions, hashed over (kind, orders, windows, grid, "
           "coefficients).")


def pool_runs(tier, seed, flavours=("plain",), scalars=("Q", "d")):
    nq = q(tier, 480, 16000)
    nd = q(tier, 640, 40000)
    runs = []
    for fl in flavours:
        for sc in scalars:
            runs.append(RunSpec("pool", sc, fl, nq if sc == "Q" else nd))
    return runs


def c03_runs(tier, seed):
    runs = pool_runs(tier, seed)
    runs += [RunSpec("arith", "Q", "plain", q(tier, 3360, 400000)),
             RunSpec("arith", "d", "plain", q(tier, 6720, 800000)),
             RunSpec("arith", "f", "plain", q(tier, 3360, 400000)),
             RunSpec("arith", "ld", "plain", q(tier, 3360, 400000))]
    runs += high_runs(tier, seed, scalars=("Q", "d", "ld"))
    # the same histories compiled with the other compiler (clang++ -O2)
    runs += [RunSpec("pool", "d", "clang", q(tier, 320, 20000))]
    # results of calls that completed after injected scalar faults (drv_throw)
    runs += [RunSpec("throw", None, "plain", q(tier, 44800, 2240000))]
    if tier == "thorough":
        runs += [RunSpec("pool", "Q", "clang", 8000),
                 RunSpec("arith", "d", "clang", 400000),
                 RunSpec("pool", "f", "plain", 20000),
                 RunSpec("pool", "ld", "plain", 20000),
                 RunSpec("pool", "Q", "nochk", 6000, defines=("MAXO=6",),
                         params={"steps": 120})]
    return runs


reg(Spec(
    "C03", "spline arithmetic == pointwise arithmetic of denotations",
    c03_runs,
    rule=POOL_RULE + "A single-shot sweep (drv_arith) adds every order pair "
         "with max(order) in 5..8 (56 pairs; + - * += -= c*a a/c -a, "
         "cross-order assignment over an existing value, linearCombination) "
         "in the 12 placements, one case in eight on a grid of 65..130 "
         "points. " + HIGH_RULE + "C03 oracle: denote(result) == "
         "model_op(shadows of the "
         "operands) as polynomials on every interval of the whole grid "
         "(equality for Q, C16 bound for floating types); the shadow of an "
         "in-place target is updated by the model so drift over a history is "
         "caught. " + POOL_NT,
    required=["scalar-fault:completed"] + ["place:add:" + p for p in PLACEMENTS] +
             ["place:mul:" + p for p in PLACEMENTS] +
             ["place:add-assign:" + p for p in PLACEMENTS] +
             ["c03:checked:" + k for k in (
                 "add", "sub", "mul", "add-assign", "sub-assign", "scalar-left",
                 "scalar-right", "scalar-div", "negate", "mul-assign",
                 "div-assign", "mul-assign-alias", "cross-order-assign",
                 "linear-combination")] + ["scalar:zero", "grid:large",
                                          "migration:checked",
                                          "migration:empty",
                                          "cross-order-assign:same-window",
                                          "orders:8,8", "orders:0,5",
                                          "checked:mul", "checked:sub-assign"],
    assumptions=[DYADIC, MODEL, "orders 0..4 in the pool (0..6 thorough); "
                 "products up to order 8 are checked but not stored"],
    evaluations=["c03:checked:" + k for k in (
        "add", "sub", "mul", "add-assign", "sub-assign", "scalar-left",
        "scalar-right", "scalar-div", "negate", "mul-assign", "div-assign",
        "mul-assign-alias", "cross-order-assign", "linear-combination")],
    technique="runtime monitor: shadow-model oracle over generated operation "
              "histories (pool machine)"))


def throw_runs(tier, seed):
    """in-place operations interrupted by a throwing scalar type (drv_throw)"""
    return [RunSpec("throw", None, "plain", q(tier, 44800, 2240000)),
            RunSpec("throw", None, "nochk", q(tier, 22400, 1120000)),
            RunSpec("throw", None, "clang", q(tier, 22400, 1120000))]


THROW_RULE = ("A scalar type whose own operations can fail (drv_throw: a "
              "wrapper around double whose every arithmetic operation, copy "
              "construction and copy assignment counts down while armed and "
              "throws at the k-th one) interrupts += -= copy assignment, "
              "cross-order assignment, assignment from a sum and from an "
              "operator result, *= /= and the non-mutating operations (+ * "
              "operator expression, forms, evaluation, linearCombination) at "
              "k = 1, 2, ... until the call completes, for orders 0..3 x 0..3 "
              "in the 12 placements: after every failed attempt target and "
              "operands must be bit-identical (for *= and /= only validity is "
              "judged - the basic guarantee) and valid; the completed call is "
              "compared with the same operation on double splines. ")


def c10_runs(tier, seed):
    runs = throw_runs(tier, seed) + [
            RunSpec("pool", "Q", "plain", q(tier, 320, 12000)),
            RunSpec("pool", "d", "nochk", q(tier, 640, 40000)),
            RunSpec("validate", "f", "plain", q(tier, 1200, 40000),
                    params={"gridblocks": 100, "gridpercase": 64})]
    if tier == "thorough":
        runs += [RunSpec("pool", "d", "plain", 40000),
                 RunSpec("pool", "Q", "nochk", 6000, defines=("MAXO=6",),
                         params={"steps": 120})]
    return runs


reg(Spec(
    "C10", "class invariants survive every history", c10_runs,
    rule=POOL_RULE + "C10 oracle: invariant walk over all live objects after "
         "every step through the public API only (grid >= 2 strictly "
         "increasing points; window (0,0) or start<end<=grid size; "
         "size/empty/containsIntervals/numberOfIntervals/iteration/front/back/"
         "at/[] agree; one coefficient array per interval); moved-from objects "
         "must be interval-free on the same grid and are re-used as targets "
         "and operands; in the 'plain' flavour the repository's own "
         "BSPLINE_ADD_TEST_CHECKS entry checks run as well (an exception or "
         "terminate from an accessor of a live object is a violation). "
         "Fault injection (double builds): for copy assignment, += , -=, "
         "cross-order assignment and assignment from a temporary a countdown "
         "operator new makes the 1st, 2nd, ... allocation inside the call throw "
         "std::bad_alloc in turn until the call completes; after every failed "
         "attempt all objects are walked (and, for C14, the target must be "
         "bit-identical); the same for the non-mutating operations (sum, "
         "product, scalar multiple, operators, spline factor, "
         "linearCombination, copy construction, forms). " + THROW_RULE +
         POOL_NT,
    required=["c10:objects-walked", "c10:moved-from-checked",
              "step:move-construct", "step:move-assign", "step:self-assign",
              "step:self-move", "step:cross-order-assign",
              "step:construct-empty", "step:construct-point", "step:destroy",
              "step:support-move", "c10:moved-from-support-checked",
              "step:fail-add-assign", "step:fail-ctor-count",
              "step:fail-lincomb", "step:fail-factor", "step:fail-grid-ctor",
              "grid-foreign:collapsing", "step:grid-migration",
              "alloc-fault:injected", "alloc-fault:completed",
              "alloc-fault:alloc-fault-copy-assign",
              "alloc-fault:alloc-fault-cross-assign",
              "alloc-fault:pure-completed", "scalar-fault:injected",
              "scalar-fault:cross-assign", "scalar-fault:copy-assign",
              "scalar-fault:mul-assign", "scalar-fault:completed"],
    assumptions=["histories of 150 steps over 15+5 objects; orders 0..4 "
                 "(0..6 thorough)", "self-move-assignment is exercised except "
                 "under the checked-STL flavour, where libstdc++ itself "
                 "forbids it for std::vector"],
    evaluations="c10:objects-walked",
    technique="runtime monitor: invariant walk at quiescent points (after "
              "every step of generated histories) + the library's own "
              "self-check hooks"))


def c14_runs(tier, seed):
    n = q(tier, 8000, 600000)
    return pool_runs(tier, seed, flavours=("nochk",)) + [
        RunSpec("eval", "Q", "plain", n), RunSpec("eval", "d", "plain", n),
        RunSpec("pool", "d", "clang", q(tier, 320, 20000))] + throw_runs(
            tier, seed) + (
        [RunSpec("pool", "d", "plain", 40000)] if tier == "thorough" else [])


reg(Spec(
    "C14", "value semantics: operands and earlier results are never disturbed",
    c14_runs,
    rule=POOL_RULE + "C14 oracle: a deep snapshot (grid object identity, grid "
         "point bit patterns, window, every coefficient bit pattern) of every "
         "pool object is taken before each step and compared afterwards; "
         "everything outside the declared write set (the target of an in-place "
         "operator or assignment, both sides of a move, nothing for any other "
         "call and nothing for a call that throws) must be bit-identical; the "
         "vectors behind the two shared grids never change. Evaluation is a "
         "read: every written object is evaluated at all grid points and "
         "midpoints in ascending and then in descending order, and the "
         "evaluation driver (see C02; one case in sixteen on a grid of 65..120 "
         "points) evaluates its abscissae as listed and then reversed; the "
         "values must be bit-identical. Allocation failures are injected "
         "into in-place and into non-mutating operations of the double "
         "builds (see C10). " + THROW_RULE + POOL_NT,
    required=["c14:bystanders-compared", "c14:evaluations-repeated",
              "grid:large", "alloc-fault:injected",
              "alloc-fault:pure-completed", "scalar-fault:target-compared",
              "scalar-fault:add-assign", "scalar-fault:sub-assign",
              "scalar-fault:assign-sum", "scalar-fault:completed",
              "alloc-fault:alloc-fault-add-assign", "step:fail-add-assign",
              "step:fail-sub-assign", "step:copy-construct",
              "step:copy-assign", "step:mul-assign", "step:add-assign"],
    assumptions=["histories of 150 steps; orders 0..4", "allocation failures "
                 "are injected for built-in scalar types only; for the scalar "
                 "type whose own arithmetic throws, *= and /= can only give "
                 "the basic guarantee: validity is judged, the value is not"],
    evaluations="c14:bystanders-compared",
    technique="runtime monitor: before/after deep snapshots of every live "
              "object around every step (frame condition checker)"))


def c15_runs(tier, seed):
    n = q(tier, 80000, 3000000)
    return pool_runs(tier, seed) + [
        RunSpec("grids", "Q", "plain", n), RunSpec("grids", "d", "plain", n),
        RunSpec("arith", "Q", "plain", q(tier, 1680, 200000)),
        RunSpec("arith", "d", "plain", q(tier, 3360, 400000))] + high_runs(
            tier, seed)


reg(Spec(
    "C15", "predicates tell the truth", c15_runs,
    rule=POOL_RULE + "C15 oracle: isZero() <=> the exact denotation is the "
         "zero function; a.checkOverlap(b) (both directions) <=> the windows "
         "share an interval, and <=> the product has an interval; a==b <=> "
         "same window (or both empty) and coefficient-wise equal on equal "
         "grids, never equal across logically different grids; == reflexive, "
         "symmetric, true for copies, != its negation; for supports and grids "
         "as well. The grid-pair driver (see C08) adds splines with identical "
         "windows and coefficients on twin / differing grids (10 kinds of "
         "difference, including grids that differ only outside the window): "
         "equal iff the grids are logically equal. Near misses (pool, "
         "arithmetic sweep up to order 8, extreme orders up to 64): a copy "
         "with exactly one coefficient changed - at a random position and at "
         "the highest power of the last interval - is never equal; a spline "
         "with exactly one non-zero coefficient is never zero. " + POOL_NT,
    required=["c15:predicates-after-write",
              "pred:isZero:true", "pred:isZero:false", "pred:eq:true",
              "pred:eq:false", "pred:support-eq", "pred:near-misses",
              "order:64", "c15:equality-across-grids"] +
             ["pred:overlap:%s:%s" % (p, t) for p, t in (
                 ("EQ", "true"), ("A_IN_B", "true"), ("B_IN_A", "true"),
                 ("PARTIAL_L", "true"), ("PARTIAL_R", "true"),
                 ("TOUCH", "false"), ("GAP", "false"), ("A_EMPTY", "false"),
                 ("B_EMPTY", "false"), ("BOTH_EMPTY", "false"),
                 ("A_POINT", "false"), ("B_POINT", "false"))],
    assumptions=["NaN coefficients and checkOverlap across different grids "
                 "are not judged"],
    evaluations=None,
    technique="runtime monitor: predicate results compared with the shadow "
              "model and with window arithmetic over generated histories"))


# --------------------------------------------------------------------- setup


def setup(argv):
    """Warm the build cache for the quick tier of every registered check."""
    targets = []
    for prop, spec in sorted(CHECKS.items()):
        if getattr(spec, "custom_targets", None):
            targets += spec.custom_targets("quick", 1)
        else:
            targets += [rs.target() for rs in spec.runs("quick", 1)]
    failed = B.build_all(targets, E.NCPU)
    for t in failed:
        print("setup: build failed for %s (see %s)" % (t.name, t.log))
    print("setup: %d targets, %d failed" % (len({t.name for t in targets}),
                                            len(failed)))
    return 1 if failed else 0
