"""Content-addressed build step for the harness drivers.

One translation unit per binary.  A binary is rebuilt when the command line or
the *contents* of any file in the compiler's dependency list (-MD) under /repo
or /verif changed; mtimes are irrelevant, so an edit anywhere under /repo
rebuilds exactly the binaries that include the edited file.
"""
import fcntl
import hashlib
import json
import os
import subprocess
import time
from concurrent.futures import ThreadPoolExecutor

VERIF = os.path.dirname(os.path.dirname(os.path.abspath(__file__)))
REPO = os.environ.get("VERIF_REPO", "/repo")
CACHE = os.environ.get("VERIF_CACHE", os.path.join(VERIF, ".cache"))
HARNESS = os.path.join(VERIF, "harness")

COMMON = ["-std=c++17", "-I" + os.path.join(REPO, "include"), "-I" + HARNESS,
          "-Wno-deprecated-declarations"]

SAN = ["-g", "-fno-omit-frame-pointer", "-fsanitize=address,undefined",
       "-fno-sanitize-recover=all"]

FLAVOURS = {
    # functional monitors; the repository's own optional self-checks are on
    "plain": ("g++", ["-O1", "-g1", "-DBSPLINE_ADD_TEST_CHECKS"]),
    # same without the self-checks (what a user of the headers gets)
    "nochk": ("g++", ["-O1", "-g1"]),
    "O0": ("g++", ["-O0", "-DBSPLINE_ADD_TEST_CHECKS"]),
    "O0n": ("g++", ["-O0"]),
    "O2": ("g++", ["-O2", "-DBSPLINE_ADD_TEST_CHECKS"]),
    "O2n": ("g++", ["-O2"]),
    "O3": ("g++", ["-O3", "-DBSPLINE_ADD_TEST_CHECKS"]),
    "O3n": ("g++", ["-O3"]),
    # functional monitors under the other compiler (argument evaluation order,
    # different inlining and floating-point code generation)
    "clang": ("clang++", ["-O2", "-g1", "-DBSPLINE_ADD_TEST_CHECKS"]),
    "asan": ("g++", ["-O1"] + SAN + ["-D_GLIBCXX_ASSERTIONS"]),
    "asanchk": ("g++", ["-O1"] + SAN + ["-D_GLIBCXX_ASSERTIONS",
                                        "-DBSPLINE_ADD_TEST_CHECKS"]),
    "asan-clang": ("clang++", ["-O1"] + SAN + ["-fno-sanitize=object-size",
                                              "-D_GLIBCXX_ASSERTIONS"]),
    "dbgstl": ("g++", ["-O1", "-g1", "-D_GLIBCXX_DEBUG"]),
    "tsan": ("g++", ["-O1", "-g", "-fsanitize=thread", "-DVQ_NO_COUNT"]),
    "tsan-clang": ("clang++", ["-O1", "-g", "-fsanitize=thread",
                               "-DVQ_NO_COUNT"]),
    # run under valgrind: the driver's own operator new (failpoints) is off
    "vg": ("g++", ["-O1", "-g", "-DVF_NO_FAILPOINTS"]),
    "cov": ("g++", ["-O0", "--coverage"]),
}

SCALARS = {"Q": "-DVT_Q", "d": "-DVT_D", "f": "-DVT_F", "ld": "-DVT_LD"}


def sha(path):
    h = hashlib.sha1()
    try:
        with open(path, "rb") as f:
            h.update(f.read())
    except OSError:
        return "missing"
    return h.hexdigest()


class Target:
    """sources: list of absolute paths (first is the driver TU)."""

    def __init__(self, name, sources, flavour, scalar=None, defines=(),
                 extra_flags=(), libs=()):
        self.name = name
        self.sources = list(sources)
        self.flavour = flavour
        self.scalar = scalar
        cxx, fl = FLAVOURS[flavour]
        self.cxx = cxx
        flags = list(COMMON) + list(fl)
        if scalar:
            flags.append(SCALARS[scalar])
        flags += ["-D" + d for d in defines]
        flags += list(extra_flags)
        self.flags = flags
        self.libs = list(libs)
        self.bin = os.path.join(CACHE, "bin", name)
        self.meta = os.path.join(CACHE, "meta", name + ".json")
        self.log = os.path.join(CACHE, "log", name + ".log")
        self.error = None
        self.built = False
        self.seconds = 0.0

    def cmd(self, depfile):
        return ([self.cxx] + self.flags + self.sources +
                ["-o", self.bin, "-MD", "-MF", depfile] + self.libs)

    def cmd_hash(self):
        c = self.cmd("DEP")
        return hashlib.sha1("\0".join(c).encode()).hexdigest()


def _tracked(path):
    p = os.path.realpath(path)
    return (p.startswith(os.path.realpath(REPO) + os.sep) or
            p.startswith(os.path.realpath(VERIF) + os.sep))


def _parse_deps(depfile):
    try:
        txt = open(depfile).read()
    except OSError:
        return []
    txt = txt.replace("\\\n", " ")
    deps = []
    for line in txt.splitlines():
        if ":" not in line:
            continue
        for tok in line.split(":", 1)[1].split():
            if _tracked(tok):
                deps.append(os.path.realpath(tok))
    return sorted(set(deps))


def up_to_date(t):
    if not os.path.exists(t.bin) or not os.path.exists(t.meta):
        return False
    try:
        m = json.load(open(t.meta))
    except (OSError, ValueError):
        return False
    if m.get("cmd") != t.cmd_hash():
        return False
    for p, h in m.get("deps", {}).items():
        if sha(p) != h:
            return False
    return True


def build_one(t):
    for d in ("bin", "meta", "log", "lock", "dep"):
        os.makedirs(os.path.join(CACHE, d), exist_ok=True)
    lock = open(os.path.join(CACHE, "lock", t.name + ".lock"), "w")
    fcntl.flock(lock, fcntl.LOCK_EX)
    try:
        if up_to_date(t):
            return t
        t0 = time.time()
        depfile = os.path.join(CACHE, "dep", t.name + ".d")
        for p in (t.bin, t.meta):
            if os.path.exists(p):
                os.unlink(p)
        with open(t.log, "w") as lg:
            lg.write(" ".join(t.cmd(depfile)) + "\n")
            lg.flush()
            r = subprocess.run(t.cmd(depfile), stdout=lg,
                               stderr=subprocess.STDOUT)
        t.seconds = time.time() - t0
        if r.returncode != 0 or not os.path.exists(t.bin):
            t.error = t.log
            return t
        deps = {p: sha(p) for p in _parse_deps(depfile)}
        for s in t.sources:
            deps[os.path.realpath(s)] = sha(s)
        with open(t.meta + ".tmp", "w") as mf:
            json.dump({"cmd": t.cmd_hash(), "deps": deps}, mf)
        os.replace(t.meta + ".tmp", t.meta)
        t.built = True
        return t
    finally:
        fcntl.flock(lock, fcntl.LOCK_UN)
        lock.close()


def build_all(targets, jobs=16):
    uniq = {}
    for t in targets:
        uniq.setdefault(t.name, t)
    with ThreadPoolExecutor(max_workers=jobs) as ex:
        list(ex.map(build_one, uniq.values()))
    for t in targets:
        u = uniq[t.name]
        t.error, t.built, t.seconds = u.error, u.built, u.seconds
    return [t for t in uniq.values() if t.error]
