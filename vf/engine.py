"""Check engine: build -> run -> merge logs -> verdict -> evidence/replays."""
import json
import os
import sys
import time

from . import build as B
from . import runner as RN

VERIF = B.VERIF
# VERIF_EVIDENCE / VERIF_REPLAYS exist only for runs against a patched scratch
# copy (seeded changes): those must not overwrite the evidence of /repo itself
EVIDENCE_DIR = os.environ.get("VERIF_EVIDENCE") or os.path.join(VERIF, "evidence")
REPLAY_DIR = os.environ.get("VERIF_REPLAYS") or os.path.join(VERIF, "replays")
KNOWN = os.path.join(VERIF, "known_findings.json")
NCPU = int(os.environ.get("VERIF_JOBS", os.cpu_count() or 16))


class RunSpec:
    """Declarative description of one driver run inside a check."""

    def __init__(self, driver, scalar, flavour="plain", cases=1000, params=None,
                 defines=(), shards=None, timeout=None, wrapper=None,
                 env=None, extra_sources=(), extra_flags=(), libs=(),
                 source=None, name=None, ignore_viol=False, extra_args=None):
        self.driver = driver
        self.scalar = scalar
        self.flavour = flavour
        self.cases = cases
        self.params = params or {}
        self.defines = tuple(defines)
        self.shards = shards
        self.timeout = timeout
        self.wrapper = wrapper
        self.env = env
        self.extra_sources = tuple(extra_sources)
        self.extra_flags = tuple(extra_flags)
        self.libs = tuple(libs)
        self.source = source
        self.name = name
        # sanitizer-only runs: functional-oracle output belongs to other checks
        self.ignore_viol = ignore_viol
        self.extra_args = extra_args

    def target(self):
        src = self.source or os.path.join(B.HARNESS,
                                          "drv_%s.cpp" % self.driver)
        nm = self.name or self.driver
        name = "%s-%s-%s" % (nm, self.scalar or "x", self.flavour)
        if self.defines:
            name += "-" + "-".join(d.replace("=", "") for d in self.defines)
        return B.Target(name, [src] + list(self.extra_sources), self.flavour,
                        self.scalar, self.defines, self.extra_flags, self.libs)


class Spec:
    def __init__(self, prop, title, runs, rule, level="exploration",
                 required=(), assumptions=(), evaluations=None,
                 post=None, exhaustive=False, technique="", level_text="",
                 level_note="", design_ref="", crash_kinds=None,
                 any_prop=False):
        self.prop = prop
        self.title = title
        self.runs = runs              # f(tier, seed) -> [RunSpec]
        self.rule = rule
        self.level = level
        self.required = tuple(required)   # counters that must be > 0
        self.assumptions = list(assumptions)
        self.evaluations = evaluations    # counter name(s) summed; None: cases
        self.post = post                  # f(result) -> None (extra coverage)
        self.exhaustive = exhaustive
        self.technique = technique
        self.level_text = level_text
        self.level_note = level_note
        self.design_ref = design_ref
        # prefixes of abnormal-termination kinds that are violations of this
        # property (None: all); anything else is inconclusive
        self.crash_kinds = crash_kinds
        # True: a violation of ANY property observed in this check's runs is a
        # violation of this property too (re-keyed)
        self.any_prop = any_prop


class Result:
    def __init__(self):
        self.counters = {}
        self.maxv = {}
        self.hashes = set()
        self.samples = []
        self.cases = 0
        self.violations = []   # dicts: prop,key,detail,replay info
        self.inconclusive = []
        self.extra = {}
        self.per_run = []


def load_known():
    try:
        k = json.load(open(KNOWN))
    except (OSError, ValueError):
        return {"open": [], "fixed": []}
    k.setdefault("open", [])
    k.setdefault("fixed", [])
    return k


def _merge_summary(res, ev):
    for k, v in ev.get("counters", {}).items():
        res.counters[k] = res.counters.get(k, 0) + v
    for k, v in ev.get("max", {}).items():
        if k not in res.maxv or v > res.maxv[k]:
            res.maxv[k] = v
    res.hashes.update(ev.get("hashes", []))
    for s in ev.get("samples", []):
        if len(res.samples) < 6 and s not in res.samples:
            res.samples.append(s)
    res.cases += ev.get("cases", 0)


def _replay_record(prop, key, spec, run, case, detail):
    return {
        "property": prop, "key": key, "driver": spec.driver,
        "source": spec.source, "extra_sources": list(spec.extra_sources),
        "scalar": spec.scalar, "flavour": spec.flavour,
        "defines": list(spec.defines), "extra_flags": list(spec.extra_flags),
        "libs": list(spec.libs), "name": spec.name,
        "params": spec.params, "seed": run.seed, "case": case,
        "cases": run.cases, "wrapper": spec.wrapper, "env": spec.env,
        "extra_args": spec.extra_args,
        "detail": detail,
    }


def collect(prop, pairs, res, crash_kinds=None, any_prop=False):
    """pairs: [(RunSpec, Run)] after execution."""
    for spec, run in pairs:
        info = {"binary": run.target.name, "cases": run.cases,
                "shards": run.shards, "wall_s": 0.0, "crashes": 0}
        for job in run.jobs:
            info["wall_s"] = max(info["wall_s"], round(job.wall, 2))
            got_summary = False
            for ev in job.events:
                if ev.get("t") == "summary":
                    _merge_summary(res, ev)
                    got_summary = True
                    if "digest" in ev:
                        info["digest"] = "%016x" % (
                            (int(info.get("digest", "0"), 16) +
                             int(ev["digest"], 16)) % (1 << 64))
                    for mk, mvv in ev.get("max", {}).items():
                        info.setdefault("max", {})
                        if mvv > info["max"].get(mk, -1):
                            info["max"][mk] = mvv
                elif ev.get("t") == "viol":
                    if spec.ignore_viol:
                        continue
                    if ev.get("prop") != prop:
                        if not any_prop:
                            continue
                        ev = dict(ev)
                        ev["key"] = "%s/via/%s" % (prop, ev["key"])
                    res.violations.append({
                        "prop": prop, "key": ev["key"],
                        "detail": ev.get("detail", ""),
                        "replay": _replay_record(prop, ev["key"], spec, run,
                                                 ev.get("case"),
                                                 ev.get("detail", ""))})
            for cr in job.crashes:
                info["crashes"] += 1
                if cr["kind"] == "harness-error":
                    res.inconclusive.append(
                        "harness error in %s: %s" % (run.target.name,
                                                     cr["report"][-400:]))
                    continue
                if crash_kinds is not None and not any(
                        cr["kind"].startswith(k) for k in crash_kinds):
                    res.inconclusive.append(
                        "%s ended abnormally (%s) at case %s; not a %s "
                        "matter: %s" % (run.target.name, cr["kind"],
                                        cr["case"], prop,
                                        cr["report"][-300:]))
                    continue
                key = "%s/%s/%s/%s" % (prop, spec.driver, cr["kind"],
                                       cr["frame"] or "-")
                res.violations.append({
                    "prop": prop, "key": key,
                    "detail": "abnormal termination of %s at case %s:\n%s" % (
                        run.target.name, cr["case"], cr["report"][-2500:]),
                    "replay": _replay_record(prop, key, spec, run, cr["case"],
                                             cr["report"][-2500:])})
            if job.hang:
                res.inconclusive.append(
                    "timeout after %ss in %s at case %s" % (
                        job.hang["timeout"], run.target.name,
                        job.hang["case"]))
                res.extra.setdefault("hangs", []).append(
                    (spec, run, job.hang["case"]))
            if not got_summary and not job.crashes and not job.hang:
                res.inconclusive.append("no summary from %s shard %d: %s" % (
                    run.target.name, job.shard, job.stderr_tail[-300:]))
        res.per_run.append(info)


def write_evidence(spec, tier, seed, res, wall, nviol, extra_cov=None):
    os.makedirs(EVIDENCE_DIR, exist_ok=True)
    if callable(spec.evaluations):
        evaluations = spec.evaluations(res.counters)
    elif spec.evaluations:
        names = spec.evaluations if isinstance(spec.evaluations, (list, tuple)) \
            else [spec.evaluations]
        evaluations = sum(res.counters.get(n, 0) for n in names)
    else:
        evaluations = res.cases
    # evaluations counts executions judged by this property's oracle; the
    # distinct non-trivial cases are a subset of the executed cases
    evaluations = max(int(evaluations), len(res.hashes))
    cov = {
        "evaluations": int(evaluations),
        "distinct_nontrivial": len(res.hashes),
        "rule": spec.rule,
        "samples": res.samples[:6] if res.samples else ["(no sample recorded)"],
        "cases_run": res.cases,
        "strata_observed": dict(sorted(res.counters.items())),
        "max_observed": dict(sorted(res.maxv.items())),
        "runs": res.per_run,
        "inconclusive": res.inconclusive,
    }
    if spec.exhaustive:
        cov["exhaustive"] = True
    if extra_cov:
        cov.update(extra_cov)
    ev = {
        "property_id": spec.prop, "tier": tier, "seed": int(seed),
        "level": spec.level, "coverage": cov,
        "assumptions": spec.assumptions, "wall_s": round(wall, 2),
        "violations": int(nviol),
    }
    path = os.path.join(EVIDENCE_DIR, spec.prop + ".json")
    tmp = "%s.%d.tmp" % (path, os.getpid())
    with open(tmp, "w") as f:
        json.dump(ev, f, indent=1, sort_keys=False)
        f.write("\n")
    os.replace(tmp, path)
    return path


def save_replay(v, seed):
    os.makedirs(REPLAY_DIR, exist_ok=True)
    r = v["replay"]
    name = "%s-%s-%s-%s-%s-%s.json" % (
        v["prop"], seed, r["name"] or r["driver"], r["scalar"] or "x",
        r["flavour"], r["case"])
    path = os.path.join(REPLAY_DIR, name)
    with open(path, "w") as f:
        json.dump(r, f, indent=1)
        f.write("\n")
    return path


def run_check(spec, tier, seed, jobs=NCPU):
    t0 = time.time()
    res = Result()
    rspecs = spec.runs(tier, seed)
    pairs = []
    targets = []
    for rs in rspecs:
        t = rs.target()
        targets.append(t)
        shards = rs.shards or jobs
        timeout = rs.timeout or (1800 if tier == "quick" else 4 * 3600)
        pairs.append((rs, RN.Run(t, rs.cases, seed, rs.params, shards,
                                 tag=t.name, timeout=timeout,
                                 wrapper=rs.wrapper, env=rs.env,
                                 extra_args=rs.extra_args)))
    failed = B.build_all(targets, jobs)
    build_viol = []
    if failed:
        for t in failed:
            tail = ""
            try:
                tail = open(t.log).read()[-3000:]
            except OSError:
                pass
            build_viol.append((t, tail))
    return t0, res, pairs, build_viol


def finish(spec, tier, seed, t0, res, extra_cov=None):
    """Match violations against known findings, print verdict lines, write
    evidence, return the exit code."""
    known = load_known()
    open_keys = {(k["property"], k["key"]): k for k in known["open"]}
    seen_known = {}
    new = {}
    for v in res.violations:
        kk = (v["prop"], v["key"])
        if kk in open_keys:
            seen_known.setdefault(kk, v)
        else:
            new.setdefault(kk, v)
    for c in spec.required:
        if res.counters.get(c, 0) == 0:
            res.inconclusive.append("required stratum never observed: " + c)
    if len(res.hashes) < 2 and not new:
        res.inconclusive.append("fewer than two distinct non-trivial cases")
    wall = time.time() - t0
    write_evidence(spec, tier, seed, res, wall, len(new), extra_cov)
    for kk, v in seen_known.items():
        print("KNOWN-FINDING: property=%s %s (%s)" % (
            kk[0], open_keys[kk].get("what", ""), kk[1]))
    if new:
        for kk, v in list(new.items())[:20]:
            path = save_replay(v, seed)
            print("VIOLATION property=%s replay=%s" % (kk[0], path))
            print("  key: %s" % kk[1])
            for line in v["detail"].splitlines()[:12]:
                print("  | " + line[:400])
        return 1
    if res.inconclusive:
        for m in res.inconclusive[:10]:
            print("INCONCLUSIVE property=%s reason=%s" % (
                spec.prop, m.replace("\n", " ")[:500]))
        return 2
    print("HELD property=%s tier=%s seed=%s evaluations=%d distinct=%d "
          "wall=%.1fs" % (spec.prop, tier, seed, res.cases, len(res.hashes),
                          wall))
    return 0


def standard_check(spec, tier, seed):
    t0, res, pairs, build_viol = run_check(spec, tier, seed)
    if build_viol:
        handled = False
        for t, tail in build_viol:
            if spec.prop == "C19" and t.scalar == "Q":
                res.violations.append({
                    "prop": "C19", "key": "C19/compile/" + t.name.split("-")[0],
                    "detail": "translation unit over the archetype scalar no "
                              "longer compiles:\n" + tail[-2500:],
                    "replay": {"name": t.name, "driver": t.name,
                               "scalar": "Q", "flavour": t.flavour,
                               "case": "build", "build_log": tail[-6000:]}})
                handled = True
            else:
                res.inconclusive.append(
                    "build of %s failed (see %s): %s" % (
                        t.name, t.log, tail[-600:].replace("\n", " ")))
        if not handled or True:
            pairs = [(rs, r) for rs, r in pairs if not r.target.error]
    import glob
    for rs, r in pairs:
        if rs.flavour == "cov":   # coverage counters of earlier runs
            for f in glob.glob(r.target.bin + "-*.gcda"):
                try:
                    os.unlink(f)
                except OSError:
                    pass
    RN.execute([r for _, r in pairs], NCPU)
    collect(spec.prop, pairs, res, spec.crash_kinds, spec.any_prop)
    res.extra["pairs"] = pairs
    # a timeout is re-run once on its own before anything is said about it
    for (rs, run, case) in res.extra.pop("hangs", []):
        if case is None or case >= 0xFFFFFFFFFFFFFFFE:
            continue
        rr = RN.Run(run.target, run.cases, run.seed, rs.params, 1,
                    tag=run.target.name + "-hang", timeout=600,
                    wrapper=rs.wrapper, env=rs.env,
                    extra_args=(rs.extra_args or []) + ["--only", str(case)])
        RN.execute([rr], 1)
        if rr.jobs[0].hang:
            key = "%s/%s/hang/-" % (spec.prop, rs.driver)
            res.violations.append({
                "prop": spec.prop, "key": key,
                "detail": "case %s of %s does not terminate (10 min alone)" % (
                    case, run.target.name),
                "replay": _replay_record(spec.prop, key, rs, run, case,
                                         "hang")})
    if spec.post:
        spec.post(res, tier, seed)
    res.extra.pop("pairs", None)
    return finish(spec, tier, seed, t0, res, res.extra.get("coverage"))


def replay(path):
    r = json.load(open(path))
    if r.get("case") == "build":
        print("build-failure replay: rebuild with ./check %s quick" %
              r.get("property", "C19"))
        return 2
    rs = RunSpec(r["driver"], r["scalar"], r["flavour"], r["cases"],
                 r.get("params"), r.get("defines", ()), shards=1,
                 wrapper=r.get("wrapper"), env=r.get("env"),
                 extra_sources=r.get("extra_sources", ()),
                 extra_flags=r.get("extra_flags", ()), libs=r.get("libs", ()),
                 source=r.get("source"), name=r.get("name"),
                 extra_args=(r.get("extra_args") or []) +
                 ["--only", str(r["case"])])
    t = rs.target()
    if B.build_all([t]):
        print("INCONCLUSIVE build failed: " + t.log)
        return 2
    run = RN.Run(t, r["cases"], r["seed"], rs.params, 1, timeout=1800,
                 wrapper=rs.wrapper, env=rs.env, extra_args=rs.extra_args)
    RN.execute([run], 1)
    res = Result()
    collect(r["property"], [(rs, run)], res)
    for v in res.violations:
        print("VIOLATION property=%s replay=%s" % (v["prop"], path))
        print("  key: " + v["key"])
        for line in v["detail"].splitlines()[:30]:
            print("  | " + line[:600])
    if res.violations:
        return 1
    print("replay of case %s: no violation on the current tree" % r["case"])
    return 0
