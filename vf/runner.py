"""Runs driver binaries in shards, survives crashes (restart after the failing
case), collects JSON-lines event logs, sanitizer reports and crash markers."""
import json
import os
import re
import shutil
import struct
import subprocess
import tempfile
import time
from concurrent.futures import ThreadPoolExecutor

SAN_ENV = {
    "ASAN_OPTIONS": "abort_on_error=1:halt_on_error=1:detect_leaks=0:"
                    "detect_stack_use_after_return=1:allocator_may_return_null=1:"
                    "handle_abort=0:symbolize=1",
    "UBSAN_OPTIONS": "print_stacktrace=1:halt_on_error=1:abort_on_error=1",
    "TSAN_OPTIONS": "halt_on_error=0:second_deadlock_stack=1:exitcode=66:"
                    "report_signal_unsafe=0",
}

MAX_RESTARTS = 12


class Job:
    """One driver process: binary + arguments over a shard of the cases."""

    def __init__(self, run, shard, nshards):
        self.run = run
        self.shard = shard
        self.nshards = nshards
        self.events = []     # parsed json lines
        self.crashes = []    # dicts: case, rc, kind, report
        self.hang = None
        self.stderr_tail = ""
        self.wall = 0.0


class Run:
    """A (target, cases, params) unit of a check, split into shards."""

    def __init__(self, target, cases, seed, params=None, shards=1, tag=None,
                 timeout=3600, wrapper=None, env=None, crash_prop=None,
                 extra_args=None):
        self.target = target
        self.cases = cases
        self.seed = seed
        self.params = params or {}
        self.shards = max(1, min(shards, cases))
        self.tag = tag or target.name
        self.timeout = timeout
        self.wrapper = wrapper or []
        self.env = env or {}
        self.crash_prop = crash_prop
        self.extra_args = extra_args or []
        self.jobs = []


def _classify(stderr_text, rc):
    """Kind of abnormal termination + innermost frame under the repository."""
    kind = "exit-%d" % rc
    m = re.search(r"ERROR: AddressSanitizer: ([\w-]+)", stderr_text)
    if m:
        kind = "asan:" + m.group(1)
    elif re.search(r"runtime error: (.*)", stderr_text):
        msg = re.search(r"runtime error: (.*)", stderr_text).group(1)
        msg = re.sub(r"0x[0-9a-f]+", "ADDR", msg)
        msg = re.sub(r"-?\d+", "N", msg)
        kind = "ubsan:" + msg[:60].strip().replace(" ", "-")
    elif re.search(r"==\d+== (Invalid (read|write|free)|Conditional jump|Use "
                   r"of uninitialised|Mismatched free|Source and destination "
                   r"overlap|Jump to the invalid)", stderr_text):
        m = re.search(r"==\d+== (Invalid (?:read|write|free)|Conditional jump"
                      r"|Use of uninitialised|Mismatched free|Source and "
                      r"destination overlap|Jump to the invalid)", stderr_text)
        kind = "memcheck:" + m.group(1).replace(" ", "-")
    elif "Assertion" in stderr_text and "failed" in stderr_text and \
            "/include/c++/" in stderr_text:
        kind = "glibcxx-assertion"
    elif "Error: attempt to" in stderr_text or "_GLIBCXX_DEBUG" in stderr_text \
            or re.search(r"/debug/\w+.*Error:", stderr_text, re.S):
        kind = "glibcxx-debug"
    else:
        m = re.search(r"VF-CRASH case=\d+ sig=(-?\d+)", stderr_text)
        if m:
            sig = int(m.group(1))
            names = {11: "SIGSEGV", 6: "SIGABRT", 8: "SIGFPE", 7: "SIGBUS",
                     4: "SIGILL", -1: "terminate"}
            kind = names.get(sig, "signal-%d" % sig)
            if "terminate called" in stderr_text or sig == -1:
                m2 = re.search(r"terminate called after throwing an instance "
                               r"of '([^']+)'", stderr_text)
                kind = "terminate" + (":" + m2.group(1) if m2 else "")
        elif rc < 0:
            kind = "signal-%d" % (-rc)
    frame = ""
    for m in re.finditer(r"(?:/repo|\S*?)/(include/bspline/[\w/.-]+|"
                         r"examples/[\w.-]+):(\d+)", stderr_text):
        frame = m.group(1)
        break
    return kind, frame


def _run_job(job, workdir):
    run = job.run
    base = os.path.join(workdir, "%s.%d" % (run.tag, job.shard))
    out, prog, err = base + ".jsonl", base + ".prog", base + ".err"
    start_from = 0
    t0 = time.time()
    restarts = 0
    env = dict(os.environ)
    env.update(SAN_ENV)
    env.update(run.env)
    while True:
        for p in (prog,):
            if os.path.exists(p):
                os.unlink(p)
        args = (run.wrapper + [run.target.bin, "--seed", str(run.seed),
                               "--cases", str(run.cases), "--shard",
                               "%d/%d" % (job.shard, job.nshards), "--from",
                               str(start_from), "--out", out, "--progress",
                               prog, "--flavour", run.target.flavour] +
                run.extra_args)
        for k, v in run.params.items():
            args += ["--param", "%s=%s" % (k, v)]
        timed_out = False
        with open(err, "wb") as ef:
            try:
                r = subprocess.run(args, stdout=ef, stderr=subprocess.STDOUT,
                                   env=env, timeout=run.timeout)
                rc = r.returncode
            except subprocess.TimeoutExpired:
                timed_out = True
                rc = -9
        pos = None
        try:
            with open(prog, "rb") as pf:
                pos = struct.unpack("<Q", pf.read(8))[0]
        except (OSError, struct.error):
            pass
        text = open(err, "rb").read().decode("utf-8", "replace")
        finished = pos == 0xFFFFFFFFFFFFFFFE
        tsan = len(re.findall(r"WARNING: ThreadSanitizer", text))
        if tsan:
            job.crashes.append({"case": None, "rc": rc, "kind": "tsan-report",
                                "frame": _classify(text, rc)[1],
                                "count": tsan, "report": text[:6000]})
        if rc == 0 or (finished and rc == 66):
            break
        if timed_out:
            job.hang = {"case": pos, "timeout": run.timeout}
            break
        if rc == 3 and "VF-HARNESS-ERROR" in text:
            job.crashes.append({"case": pos, "rc": rc, "kind": "harness-error",
                                "frame": "", "report": text[-3000:]})
            break
        if rc == 2:
            job.crashes.append({"case": pos, "rc": rc, "kind": "harness-error",
                                "frame": "", "report": text[-3000:]})
            break
        kind, frame = _classify(text, rc)
        job.crashes.append({"case": pos, "rc": rc, "kind": kind,
                            "frame": frame, "report": text[-6000:]})
        restarts += 1
        if pos is None or pos >= 0xFFFFFFFFFFFFFFFE or restarts > MAX_RESTARTS:
            break
        start_from = pos + 1
    job.wall = time.time() - t0
    job.stderr_tail = open(err, "rb").read()[-2000:].decode("utf-8", "replace")
    if os.path.exists(out):
        for line in open(out):
            line = line.strip()
            if not line:
                continue
            try:
                job.events.append(json.loads(line))
            except ValueError:
                pass
    return job


def execute(runs, jobs=16, keep=None):
    """Run all shards of all runs with at most `jobs` processes at a time."""
    base = os.path.join(os.environ.get("VERIF_CACHE", os.path.join(os.path.dirname(os.path.dirname(os.path.abspath(__file__))), ".cache")), "run")
    os.makedirs(base, exist_ok=True)
    workdir = tempfile.mkdtemp(prefix="vfrun-", dir=base)
    try:
        alljobs = []
        for run in runs:
            run.jobs = [Job(run, i, run.shards) for i in range(run.shards)]
            alljobs += run.jobs
        with ThreadPoolExecutor(max_workers=jobs) as ex:
            list(ex.map(lambda j: _run_job(j, workdir), alljobs))
    finally:
        shutil.rmtree(workdir, ignore_errors=True)
    return runs
