import os
import sys

from . import engine as E
from . import props as P


def main(argv):
    if not argv:
        print(__doc__ or "usage: check <ID> quick|thorough")
        return 2
    if argv[0] == "--replay":
        return E.replay(argv[1])
    if argv[0] == "--setup":
        return P.setup(argv[1:])
    if argv[0] == "--list":
        for k in sorted(P.CHECKS):
            print(k, P.CHECKS[k].title)
        return 0
    prop = argv[0]
    tier = argv[1] if len(argv) > 1 else os.environ.get("VERIF_TIER", "quick")
    if tier not in ("quick", "thorough"):
        print("tier must be quick or thorough")
        return 2
    try:
        seed = int(os.environ.get("VERIF_SEED", "1"))
    except ValueError:
        seed = 1
    if prop not in P.CHECKS:
        print("unknown property " + prop)
        return 2
    spec = P.CHECKS[prop]
    try:
        if getattr(spec, "custom", None):
            return spec.custom(spec, tier, seed)
        return E.standard_check(spec, tier, seed)
    except Exception as ex:  # harness failure is never a verdict
        import traceback
        traceback.print_exc()
        print("INCONCLUSIVE property=%s reason=harness exception %r" % (prop, ex))
        return 2
