#!/bin/sh
# Runs the repository's pinned baseline suite with the verification guard OFF
# (no hooks exist in /repo: MANIFEST.hooks.source_commits is empty, so the tree
# is built exactly as the baseline builds it: CMake + Ninja, RelWithDebInfo,
# -Wno-error) in a fresh temporary build directory, runs each of the 28
# baseline tests of /root/.vp/BASELINE.json by name and removes the directory.
set -u
REPO=${VERIF_REPO:-/repo}
BASE=${BASELINE_JSON:-/root/.vp/BASELINE.json}
D=$(mktemp -d "${TMPDIR:-/var/tmp}/bspline-baseline.XXXXXX") || exit 2
trap 'cd /; rm -rf "$D"' EXIT
cmake -G Ninja -S "$REPO" -B "$D" -DCMAKE_BUILD_TYPE=RelWithDebInfo \
      -DCMAKE_CXX_FLAGS=-Wno-error >"$D/configure.log" 2>&1 || { tail -20 "$D/configure.log"; echo "BASELINE configure failed"; exit 1; }
cmake --build "$D" -j"$(nproc)" >"$D/build.log" 2>&1 || { tail -40 "$D/build.log"; echo "BASELINE build failed"; exit 1; }
if [ -f "$BASE" ]; then
  NAMES=$(python3 -c "import json,sys; print('\n'.join(json.load(open(sys.argv[1]))['stable_pass']))" "$BASE")
else
  NAMES=$("$D/tests/test" --list_content 2>&1 | awk '/^[A-Za-z]/{s=$1; sub(/\*$/,"",s)} /^ +[A-Za-z]/{c=$1; sub(/\*$/,"",c); print s"::"c}')
fi
fail=0; n=0
for t in $NAMES; do
  path=$(echo "$t" | sed 's|::|/|')
  if "$D/tests/test" --run_test="$path" >"$D/one.log" 2>&1; then
    echo "PASS $t"
  else
    echo "FAIL $t"; tail -5 "$D/one.log"; fail=1
  fi
  n=$((n+1))
done
echo "baseline: $n tests run, guard off, $( [ $fail -eq 0 ] && echo all passed || echo FAILURES )"
exit $fail
