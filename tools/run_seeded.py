#!/usr/bin/env python3
"""Runs, for every seeded change under /verif/seeded, the quick check of its
property (and of the properties listed under 'also') against a patched scratch
copy of /repo, and records in meta.json which checks fire with which keys.
usage: tools/run_seeded.py [id ...]"""
import json
import os
import re
import shutil
import subprocess
import sys
import tempfile

ROOT = os.path.dirname(os.path.dirname(os.path.abspath(__file__)))
SEEDED = os.path.join(ROOT, "seeded")
ids = sys.argv[1:] or sorted(os.listdir(SEEDED))
for sid in ids:
    d = os.path.join(SEEDED, sid)
    mp = os.path.join(d, "meta.json")
    if not os.path.exists(mp):
        continue
    meta = json.load(open(mp))
    props = [meta["property"]] + list(meta.get("also", []))
    tree = tempfile.mkdtemp(prefix="seeded-", dir="/var/tmp")
    try:
        for sub in ("include", "examples", "tests", "readme"):
            shutil.copytree(os.path.join("/repo", sub), os.path.join(tree, sub))
        shutil.copy("/repo/CMakeLists.txt", tree)
        r = subprocess.run(["patch", "-p1", "-s", "-i", os.path.join(d, "patch.diff")],
                           cwd=tree, capture_output=True, text=True)
        if r.returncode != 0:
            print(sid, "PATCH FAILED", r.stdout[-300:], r.stderr[-300:])
            continue
        env = dict(os.environ, VERIF_REPO=tree,
                   VERIF_EVIDENCE=os.path.join(tree, "_evidence"),
                   VERIF_REPLAYS=os.path.join(tree, "_replays"),
                   VERIF_CACHE=os.environ.get("MUT_CACHE", "/var/tmp/mutant-cache"))
        det = {}
        for p in props:
            out = subprocess.run([os.path.join(ROOT, "check"), p, "quick"], cwd=ROOT,
                                 env=env, capture_output=True, text=True)
            keys = re.findall(r"^  key: (.*)$", out.stdout, re.M)
            det[p] = {"exit": out.returncode, "violation_keys": sorted(set(keys))[:6]}
            print(sid, p, "exit", out.returncode, "; ".join(sorted(set(keys))[:3])[:200],
                  flush=True)
        meta["detected_by"] = det
        json.dump(meta, open(mp, "w"), indent=1)
    finally:
        shutil.rmtree(tree, ignore_errors=True)
