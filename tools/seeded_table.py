#!/usr/bin/env python3
"""Prints the DESIGN.md section 10 table from seeded/*/meta.json."""
import json
import os

ROOT = os.path.dirname(os.path.dirname(os.path.abspath(__file__)))
rows = []
for sid in sorted(os.listdir(os.path.join(ROOT, "seeded"))):
    mp = os.path.join(ROOT, "seeded", sid, "meta.json")
    if not os.path.exists(mp):
        continue
    m = json.load(open(mp))
    det = m.get("detected_by", {})
    cells = []
    for p, d in det.items():
        k = d.get("violation_keys", [])
        first = k[0] if k else "-"
        first = first.replace("|", "/")
        if len(first) > 70:
            first = first[:67] + "..."
        cells.append("%s %s (`%s`)" % (p, "fires" if d.get("exit") == 1 else
                                       "exit %s" % d.get("exit"), first))
    change = m["change"].replace("|", "/")
    if len(change) > 150:
        change = change[:147] + "..."
    rows.append("| %s | %s | %s | %s |" % (sid, m["property"], change,
                                          "; ".join(cells) or "not run"))
print("| id | property | change | quick checks run against it and first key |")
print("|---|---|---|---|")
print("\n".join(rows))
