#!/usr/bin/env python3
"""Replaces the table of DESIGN.md section 10 by the output of seeded_table.py."""
import os
import subprocess
ROOT = os.path.dirname(os.path.dirname(os.path.abspath(__file__)))
p = os.path.join(ROOT, "DESIGN.md")
s = open(p).read()
a = s.index("| id | property | change | quick checks run against it and first key |")
b = s.index("## Appendix", a)
tab = subprocess.run(["python3", os.path.join(ROOT, "tools", "seeded_table.py")],
                     capture_output=True, text=True, check=True).stdout
open(p, "w").write(s[:a] + tab.rstrip("\n") + "\n\n\n" + s[b:])
print("table rows:", tab.count("\n") - 2)
