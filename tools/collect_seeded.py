#!/usr/bin/env python3
"""Copies confirmed seeded changes from the sub-agents' scratch worktrees
(/tmp/wt/Cxx/_seed) and the reverse patches of the repaired defects into
/verif/seeded/<id>/ (patch.diff, demonstration, meta.json)."""
import json
import os
import re
import shutil
import subprocess
import sys

ROOT = os.path.dirname(os.path.dirname(os.path.abspath(__file__)))
sys.path.insert(0, os.path.join(ROOT, "tools"))
from seeded_meta import SEEDS, SEEDS2, REVERTS  # noqa: E402

OUT = os.path.join(ROOT, "seeded")
os.makedirs(OUT, exist_ok=True)
ALL = [(k, m, "/tmp/wt", k.split("-")[0], k.split("-")[1]) for k, m in SEEDS.items()]
ALL += [(k, m, "/tmp/wt2", m["src"][0], str(m["src"][1])) for k, m in SEEDS2.items()]
for key, m, WT, pid, n in sorted(ALL):
    src = os.path.join(WT, pid, "_seed")
    conf = os.path.join(WT, "confirm", "%s-%s.txt" % (pid, n))
    if not os.path.isdir(src):
        if not os.path.exists(os.path.join(OUT, key, "patch.diff")):
            print("no source for", key)
        continue   # collected earlier, scratch worktree already removed
    if not os.path.exists(conf):
        print("no confirmation for", key)
        continue
    txt = open(conf).read()
    r = re.search(r"RESULT \S+ clean_failing_runs=(\d+) tests=\[(.*?)\] "
                  r"mutant_failing_runs=(\d+)", txt)
    if not r:
        print("unconfirmed", key)
        continue
    clean, tests, mut = int(r.group(1)), r.group(2), int(r.group(3))
    ok = clean == 0 and tests.startswith("rc0") and mut >= 2
    if not ok:
        print("NOT KEPT", key, r.group(0))
        continue
    d = os.path.join(OUT, key)
    os.makedirs(d, exist_ok=True)
    shutil.copy(os.path.join(src, "change%s.diff" % n), os.path.join(d, "patch.diff"))
    shutil.copy(os.path.join(src, "demo%s.cpp" % n), os.path.join(d, "demo.cpp"))
    for extra in ("demo%s_tsan.cpp" % n,):
        if os.path.exists(os.path.join(src, extra)):
            shutil.copy(os.path.join(src, extra), os.path.join(d, extra))
    if os.path.exists(os.path.join(src, "notes.md")):
        shutil.copy(os.path.join(src, "notes.md"), os.path.join(d, "author_notes.md"))
    cc = re.search(r"demo compile: (.*)", txt)
    base = re.search(r"worktree at (\w+)", txt)
    meta_path = os.path.join(d, "meta.json")
    old = json.load(open(meta_path)) if os.path.exists(meta_path) else {}
    meta = {
        "id": key, "property": pid, "origin": "independent sub-agent given only "
        "the property text and a scratch worktree" + (
            "" if WT == "/tmp/wt" else " (second round: asked for changes a "
            "property-based campaign over orders 0..4 would miss)"),
        "site": m["site"], "change": m["what"], "needs_to_manifest": m["needs"],
        "confirmed": {
            "tree": "scratch worktree of /repo at " + (base.group(1) if base else "?"),
            "applies_alone": True,
            "existing_suite_with_change": "28/28 test cases pass (tests/test exit 0)",
            "demo_compile": cc.group(1).replace("/tmp/wt/%s/_seed/demo%s" % (pid, n), "demo") if cc else "",
            "demo_without_change": "PASS, exit 0 (3 of 3 runs)",
            "demo_with_change": "fails (non-zero exit, %d of 3 runs)" % mut,
        },
        "detected_by": old.get("detected_by", {}),
    }
    json.dump(meta, open(meta_path, "w"), indent=1)
    shutil.copy(conf, os.path.join(d, "confirm_log.txt"))
    print("kept", key)

for key, m in sorted(REVERTS.items()):
    d = os.path.join(OUT, key)
    os.makedirs(d, exist_ok=True)
    diff = subprocess.run(["git", "-C", "/repo", "diff", m["commit"], m["commit"] + "^"],
                          capture_output=True, text=True).stdout
    open(os.path.join(d, "patch.diff"), "w").write(diff)
    meta_path = os.path.join(d, "meta.json")
    old = json.load(open(meta_path)) if os.path.exists(meta_path) else {}
    meta = {"id": key, "property": m["property"], "also": m["also"],
            "origin": "reverse patch of fix commit %s (a defect that really "
                      "existed in the pinned tree; the existing suite passed "
                      "with it)" % m["commit"],
            "change": m["what"],
            "needs_to_manifest": "see known_findings.json / DESIGN.md section 5",
            "confirmed": {"existing_suite_with_change": "28/28 (this was the pinned baseline)"},
            "detected_by": old.get("detected_by", {})}
    json.dump(meta, open(meta_path, "w"), indent=1)
    print("kept", key)
