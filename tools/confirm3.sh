#!/bin/sh
# usage: tools/confirm3.sh <property id> <n> [worktree root]
# Confirms one seeded change written by a sub-agent in its scratch worktree
# (<root>/<pid>/_seed/change<n>.diff, demo<n>.cpp): the demonstration passes
# on the clean tree (3 runs), the change applies alone, the full CMake build
# and the 28 existing tests pass with it, the demonstration fails with it
# (3 runs). Writes <root>/confirm/<pid>-<n>.txt, leaves the worktree clean.
set -u
pid=$1; n=$2; ROOT=${3:-/tmp/wt3}
WT=$ROOT/$pid; S=$WT/_seed
mkdir -p "$ROOT/confirm"
OUT=$ROOT/confirm/$pid-$n.txt
exec >"$OUT" 2>&1
cd "$WT" || exit 2
git checkout -q -- . || exit 2
echo "worktree at $(git rev-parse --short HEAD)"
cc=$(grep -m1 -E '(g\+\+|clang\+\+) ' "$S/demo$n.cpp" | sed -e 's|^[ /*#]*||' -e 's|[ */]*$||' -e 's|^[A-Za-z ]*: *||')
[ -n "${DEMO_CC:-}" ] && cc=$DEMO_CC
echo "demo compile: $cc"
runs() {  # prints the number of failing runs out of 3
  f=0; last=0
  for i in 1 2 3; do
    ( cd "$S" && timeout 300 ./demo$n >"$S/.out$n" 2>&1 ); last=$?
    [ $last -ne 0 ] && f=$((f+1))
  done
  echo "demo exit codes: last=$last failing-runs=$f/3"
  tail -4 "$S/.out$n" | cut -c1-300
  return $f
}
echo "== clean tree"
( cd "$S" && rm -f demo$n && sh -c "$cc" ) >"$S/.cc$n" 2>&1 || { echo "demo does not compile on the clean tree"; tail -20 "$S/.cc$n"; echo "RESULT $pid-$n clean_failing_runs=9 tests=[nobuild] mutant_failing_runs=0"; exit 0; }
runs; clean=$?
echo "== apply change$n"
git apply "$S/change$n.diff" || { echo "RESULT $pid-$n clean_failing_runs=$clean tests=[noapply] mutant_failing_runs=0"; exit 0; }
git diff --stat | tail -1
rm -rf "$WT/_build"
tests="nobuild"
if cmake -G Ninja -S . -B _build -DCMAKE_BUILD_TYPE=RelWithDebInfo -DCMAKE_CXX_FLAGS=-Wno-error >_build.cfg.log 2>&1 \
   && cmake --build _build -j8 >_build.log 2>&1; then
  _build/tests/test >_test.log 2>&1; trc=$?
  tests="rc$trc:$(tail -2 _test.log | tr '\n' ' ' | sed 's/\x1b\[[0-9;]*m//g')"
else
  tail -20 _build.log
fi
echo "tests: $tests"
echo "== demo with change"
mut=0
if ( cd "$S" && rm -f demo$n && sh -c "$cc" ) >"$S/.cc$n" 2>&1; then
  runs; mut=$?
else
  echo "demo no longer compiles with the change"; tail -5 "$S/.cc$n" | cut -c1-300; mut=3
fi
git checkout -q -- .
rm -rf _build _build.cfg.log _build.log _test.log "$S/demo$n" "$S/.out$n" "$S/.cc$n"
echo "RESULT $pid-$n clean_failing_runs=$clean tests=[$tests] mutant_failing_runs=$mut"
