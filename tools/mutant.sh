#!/bin/sh
# usage: tools/mutant.sh <patch.diff> <ID> [tier]   (more IDs allowed, comma separated)
# Applies the patch to a scratch copy of /repo (never to /repo itself), points
# the checks at it through VERIF_REPO with a separate build cache, prints the
# verdict lines and removes the copy again.
set -u
PATCH=$(readlink -f "$1"); IDS=$2; TIER=${3:-quick}
D=$(mktemp -d /var/tmp/mutant.XXXXXX)
trap 'cd /; rm -rf "$D"' EXIT
cp -r /repo/include /repo/examples /repo/tests /repo/CMakeLists.txt /repo/readme "$D"/ 2>/dev/null
( cd "$D" && patch -p1 -s < "$PATCH" ) || { echo "patch failed"; exit 2; }
cd /verif
for id in $(echo "$IDS" | tr , ' '); do
  VERIF_REPO="$D" VERIF_EVIDENCE="$D/_evidence" VERIF_REPLAYS="$D/_replays" VERIF_CACHE=${MUT_CACHE:-/var/tmp/mutant-cache} ./check "$id" "$TIER" > "$D/out.txt" 2>&1
  rc=$?
  echo "== $id $TIER rc=$rc  $(grep -c '^VIOLATION' "$D/out.txt") violation lines"
  grep -E "^(VIOLATION|  key:|INCONCLUSIVE|HELD|KNOWN)" "$D/out.txt" | head -${MUT_LINES:-8} | cut -c1-300
done
