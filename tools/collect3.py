#!/usr/bin/env python3
"""Third round: copies confirmed seeded changes from the sub-agents' scratch
worktrees (/tmp/wt3/Cxx/_seed, confirmed by tools/confirm3.sh) into
/verif/seeded/<id>/ (patch.diff, demo.cpp, author_notes.md, confirm_log.txt,
meta.json). Descriptions come from tools/seeded3_meta.json, written by hand
after reading the authors' notes.
usage: tools/collect3.py [id ...]"""
import json
import os
import re
import shutil
import sys

ROOT = os.path.dirname(os.path.dirname(os.path.abspath(__file__)))
WT = os.environ.get("WT3", "/tmp/wt3")
META = json.load(open(os.path.join(ROOT, "tools", "seeded3_meta.json")))
OUT = os.path.join(ROOT, "seeded")
for key in sorted(sys.argv[1:] or META):
    m = META[key]
    pid, n = m["src"]
    src = os.path.join(WT, pid, "_seed")
    conf = os.path.join(WT, "confirm", "%s-%s.txt" % (pid, n))
    if not os.path.isdir(src):
        if not os.path.exists(os.path.join(OUT, key, "patch.diff")):
            print("no source for", key)
        continue
    if not os.path.exists(conf):
        print("no confirmation for", key)
        continue
    txt = open(conf).read()
    r = re.search(r"RESULT \S+ clean_failing_runs=(\d+) tests=\[(.*?)\] "
                  r"mutant_failing_runs=(\d+)", txt)
    if not r:
        print("unconfirmed", key)
        continue
    clean, tests, mut = int(r.group(1)), r.group(2), int(r.group(3))
    if not (clean == 0 and tests.startswith("rc0") and mut >= 2):
        print("NOT KEPT", key, r.group(0))
        continue
    d = os.path.join(OUT, key)
    os.makedirs(d, exist_ok=True)
    shutil.copy(os.path.join(src, "change%s.diff" % n), os.path.join(d, "patch.diff"))
    shutil.copy(os.path.join(src, "demo%s.cpp" % n), os.path.join(d, "demo.cpp"))
    if os.path.exists(os.path.join(src, "notes%s.md" % n)):
        shutil.copy(os.path.join(src, "notes%s.md" % n), os.path.join(d, "author_notes.md"))
    cc = re.search(r"demo compile: (.*)", txt)
    base = re.search(r"worktree at (\w+)", txt)
    meta_path = os.path.join(d, "meta.json")
    old = json.load(open(meta_path)) if os.path.exists(meta_path) else {}
    meta = {
        "id": key, "property": m.get("property", pid),
        "origin": "independent sub-agent given only the property text and a "
                  "scratch worktree (third round: asked for realistic "
                  "maintenance-style changes that need a history, an unusual "
                  "input, a fault, an interleaving or two cooperating sites)",
        "site": m["site"], "change": m["what"], "needs_to_manifest": m["needs"],
        "confirmed": {
            "tree": "scratch worktree of /repo at " + (base.group(1) if base else "?"),
            "applies_alone": True,
            "existing_suite_with_change": "28/28 test cases pass (tests/test exit 0)",
            "demo_compile": cc.group(1).replace("%s/%s/_seed/" % (WT, pid), "") if cc else "",
            "demo_without_change": "PASS, exit 0 (3 of 3 runs)",
            "demo_with_change": "fails (non-zero exit, %d of 3 runs)" % mut,
        },
        "detected_by": old.get("detected_by", {}),
    }
    if m.get("also"):
        meta["also"] = m["also"]
    json.dump(meta, open(meta_path, "w"), indent=1)
    shutil.copy(conf, os.path.join(d, "confirm_log.txt"))
    print("kept", key)
