#!/usr/bin/env python3
"""Writes /verif/MANIFEST.json from the check registry (vf/props.py)."""
import json
import os
import sys

ROOT = os.path.dirname(os.path.dirname(os.path.abspath(__file__)))
sys.path.insert(0, ROOT)
from vf import props as P  # noqa: E402

LEVEL_TEXT = {
    "C01": "Exploration with an exact oracle: every generated basis function is compared, as a polynomial on every grid interval, with an independent Cox-de Boor model over exact rationals (equality for the exact scalar, the C16 rounding bound for built-in types) on tens of thousands (quick) to millions (thorough, incl. an exhaustive enumeration of multiplicity vectors) of stratified knot vectors. The input family is infinite, so sampling with an exact oracle is the strongest statement execution can give; held means 'no counterexample among the executions listed in the evidence'.",
    "C02": "Exploration with an exact oracle over boundary-focused abscissae (every grid point, both ends +- one ulp, far outside) and, inside operation histories, after every assignment/move/in-place update; the quantifier ranges over all real x, so the check concentrates on the places where interval selection can go wrong (neighbours of every grid point, float / double / long double / exact, grids up to 120 points, orders up to 64).",
    "C03": "Exploration over operation histories: a shadow model is advanced alongside a pool of real objects and compared after every step on every interval of the whole grid, with all 12 relative placements of supports and all order pairs required in every run. Exact for the rational scalar; histories catch drift and stale state that single calls cannot. Single-shot sweeps add every order pair up to 8 x 8, grids of up to 130 points and the extreme orders 11..64.",
    "C04": "Exploration over a compiled catalogue of all (operator, n, order) combinations with n = 0..8 and order 0..6 (133 instantiations) with an exact oracle; the template space is covered exhaustively within these bounds, the operand space by sampling; orders 11..64 with derivatives up to order+1 are sampled by the extreme-order driver.",
    "C05": "Exploration over generated programs: each operator expression is a distinct template instantiation, so expressions are generated (catalogue + seed-dependent random set), compiled against the real headers and compared with an interpreter of the same AST over the exact model. Expression types are sampled, not enumerated; expressions with derivative orders up to 63 inside are run by the extreme-order driver.",
    "C06": "Exploration over generated programs with an exact-integral oracle plus metamorphic relations (swap, linearity, identity form, scalar product) evaluated through the library only, over all 12 placements and all four parity combinations of the kernel.",
    "C07": "Exploration over generated programs with an exact-integral oracle and the library-against-library relation BilinearForm == LinearForm of the product spline, over output sizes 1..8+ of both parities.",
    "C08": "Exploration over systematically constructed grid pairs (10 kinds of difference incl. grids equal wherever the supports meet) x 15 entry points x placements: outcome (exception type and code), result and before/after snapshots of the arguments are monitored; equal twins must give results identical to a shared instance; the spline factor is wrapped in ten expression shapes; long-lived operators and splines are confronted with freshly allocated different grids (address reuse).",
    "C09": "Sanitizer exploration: the workloads of all other checks re-run under ASan+UBSan with libstdc++ assertions (thorough: clang, checked STL, memcheck), with gcov accounting of the library lines reached, plus an exhaustive small-scope oracle for the checked accessors incl. indices near SIZE_MAX. A clean run is evidence for the executions performed, not a proof of memory safety.",
    "C10": "Exploration over histories with an invariant walk at every quiescent point (after every step) through the public API only, plus the repository's own self-check hooks; includes moves, self-assignment, self-move, refused calls, failed constructions and injected faults: allocation failures (countdown operator new) inside assignments, in-place operators and non-mutating operations, and a scalar type whose k-th operation throws, for every k until the call completes.",
    "C11": "Exploration with an accept-iff-valid oracle: exhaustive for all point sequences up to length 6 (8 thorough) over a 7-letter alphabet incl. NaN and infinities through every constructor, exhaustive small index/count ranges for supports, splines, linearCombination and interpolation arguments, sampled knot vectors around the order bound.",
    "C12": "Exploration with an exact condition-by-condition oracle (generic interpolate over the exact scalar with a harness solver) and a backward-error oracle for the bundled solver against a system re-assembled independently from the statement.",
    "C13": "Exhaustive within a small scope: every window, ordered pair and ordered triple of windows on grids of 2..9 (12 thorough) points against a set model, every window x ~100 index values incl. the extremes of size_t and values that alias small indices when truncated; sampled window triples on grids of 300 and 70 000 points; reference stability across const operations; a long-lived support confronted with equal and different grids that are created and destroyed around it (address reuse counted).",
    "C14": "Exploration over histories with a frame-condition checker: bit-level deep snapshots of every pool object before and after every step, everything outside the declared write set must be identical (also after a call that throws - refused, hit by an injected allocation failure, or interrupted by a scalar type whose own operations throw at the k-th operation for every k); evaluations must be repeatable in any order; the same histories also run compiled with clang++.",
    "C15": "Exploration: predicate results are compared with the exact denotation, with window arithmetic and with each other over histories and over systematically constructed grid pairs, plus near misses (one coefficient changed / non-zero, scaling by 0, underflow) up to order 64.",
    "C16": "Exploration in 18 build configurations (3 types x 3 optimisation levels x self-checks on/off) with an exact-rational oracle and the property's own constant 2^20 eps; digests of all result bit patterns must agree between the self-check on/off builds.",
    "C17": "Exploration with a probe callable that records the sampled abscissae (region oracle, all n) and an exact-integral oracle on both sides of the exactness bound, three floating types, n up to 32, weights returned in other types.",
    "C18": "Schedule exploration: ThreadSanitizer plus a determinism oracle (per-thread digests vs sequential replay after the concurrent phase) over many short-lived processes, 2..32 threads, injected yields and a core-pinned pass. TSan generalises over timing for the code paths executed concurrently; evidence lists which operation pairs overlapped; exception paths, interpolation and rarely used instantiations run concurrently as well.",
    "C19": "Compile-and-run observation with a minimal archetype scalar (explicit integer construction only, constructions from values beyond int counted, deleted floating conversion, numeric_limits not specialised, indeterminate default value) through every template the harness instantiates, under exact oracles; the evidence lists the instantiated library entities and the operations actually used.",
    "C20": "Sanitizer + metamorphic exploration of the real example sources: ASan/UBSan/libstdc++ assertions and checked STL builds of the example translation units driven over small and large grids, with solution-against-solution oracles that do not depend on discretisation error.",
}

ids = [json.loads(l)["id"] for l in open(os.path.join(ROOT, "properties.jsonl"))]
checks = []
for pid in ids:
    if pid not in P.CHECKS:
        continue
    s = P.CHECKS[pid]
    checks.append({
        "property_id": pid,
        "quick_cmd": "./check %s quick" % pid,
        "thorough_cmd": "./check %s thorough" % pid,
        "evidence_file": "/verif/evidence/%s.json" % pid,
        "replay_cmd_template": "./check --replay {path}",
        "engine": "vf",
        "level_claimed": {
            "category": s.level,
            "text": s.level_text or LEVEL_TEXT.get(pid, s.title),
            "design_ref": s.design_ref or ("DESIGN.md section 4, " + pid),
        },
        "level_note": s.level_note or "; ".join(s.assumptions),
        "technique": s.technique,
    })
na = [{"property_id": pid, "reason": P.NOT_APPLICABLE.get(
    pid, "no check registered yet in this round; design in DESIGN.md section 4")}
    for pid in ids if pid not in P.CHECKS]
m = {
    "version": 1,
    "setup_cmd": "./check --setup",
    "hooks": {
        "guard": "BSPLINE_VERIF",
        "enable": "no source hooks exist: every observation is made at the "
                  "public API boundary; checks compile the harness drivers "
                  "against /repo/include (and /repo/examples) as they are. The "
                  "repository's own optional self-checks are switched on with "
                  "-DBSPLINE_ADD_TEST_CHECKS in the 'plain' build flavour.",
        "baseline_off_cmd": "./baseline_off.sh",
        "source_commits": [],
        "add_only": True,
    },
    "engines": [{
        "name": "vf",
        "path": "/verif/check",
        "serves_properties": [c["property_id"] for c in checks],
        "kind_free_text": "runtime monitoring: C++ drivers execute the real "
                          "headers under generated workloads while reference-"
                          "model oracles, invariant walks, snapshot monitors "
                          "and compiler sanitizers observe; Python runner "
                          "shards, restarts after crashes, merges event logs "
                          "and writes evidence",
    }],
    "checks": checks,
    "not_applicable": na,
    "notes": "Exit 0 held / 1 violation / 2 inconclusive. VERIF_SEED selects "
             "the workload; VERIF_REPO/VERIF_CACHE redirect the tree under "
             "test and the build cache (used for mutant validation only).",
}
json.dump(m, open(os.path.join(ROOT, "MANIFEST.json"), "w"), indent=1)
print("MANIFEST.json: %d checks, %d not_applicable" % (len(checks), len(na)))
