#!/usr/bin/env python3
"""Writes /verif/MANIFEST.json from the check registry (vf/props.py)."""
import json
import os
import sys

ROOT = os.path.dirname(os.path.dirname(os.path.abspath(__file__)))
sys.path.insert(0, ROOT)
from vf import props as P  # noqa: E402

ids = [json.loads(l)["id"] for l in open(os.path.join(ROOT, "properties.jsonl"))]
checks = []
for pid in ids:
    if pid not in P.CHECKS:
        continue
    s = P.CHECKS[pid]
    checks.append({
        "property_id": pid,
        "quick_cmd": "./check %s quick" % pid,
        "thorough_cmd": "./check %s thorough" % pid,
        "evidence_file": "/verif/evidence/%s.json" % pid,
        "replay_cmd_template": "./check --replay {path}",
        "engine": "vf",
        "level_claimed": {
            "category": s.level,
            "text": s.level_text or s.title,
            "design_ref": s.design_ref or ("DESIGN.md section 4, " + pid),
        },
        "level_note": s.level_note or "; ".join(s.assumptions),
        "technique": s.technique,
    })
na = [{"property_id": pid, "reason": P.NOT_APPLICABLE.get(
    pid, "no check registered yet in this round; design in DESIGN.md section 4")}
    for pid in ids if pid not in P.CHECKS]
m = {
    "version": 1,
    "setup_cmd": "./check --setup",
    "hooks": {
        "guard": "BSPLINE_VERIF",
        "enable": "no source hooks exist: every observation is made at the "
                  "public API boundary; checks compile the harness drivers "
                  "against /repo/include (and /repo/examples) as they are. The "
                  "repository's own optional self-checks are switched on with "
                  "-DBSPLINE_ADD_TEST_CHECKS in the 'plain' build flavour.",
        "baseline_off_cmd": "./baseline_off.sh",
        "source_commits": [],
        "add_only": True,
    },
    "engines": [{
        "name": "vf",
        "path": "/verif/check",
        "serves_properties": [c["property_id"] for c in checks],
        "kind_free_text": "runtime monitoring: C++ drivers execute the real "
                          "headers under generated workloads while reference-"
                          "model oracles, invariant walks, snapshot monitors "
                          "and compiler sanitizers observe; Python runner "
                          "shards, restarts after crashes, merges event logs "
                          "and writes evidence",
    }],
    "checks": checks,
    "not_applicable": na,
    "notes": "Exit 0 held / 1 violation / 2 inconclusive. VERIF_SEED selects "
             "the workload; VERIF_REPO/VERIF_CACHE redirect the tree under "
             "test and the build cache (used for mutant validation only).",
}
json.dump(m, open(os.path.join(ROOT, "MANIFEST.json"), "w"), indent=1)
print("MANIFEST.json: %d checks, %d not_applicable" % (len(checks), len(na)))
